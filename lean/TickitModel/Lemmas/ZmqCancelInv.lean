/-
M9c+ — invariants of the ZeroMQ push stream with cancellation (`Core/ZmqCancel.lean`),
preserved by every action including `cancel k` at every place.
-/
import TickitModel.Lemmas.ZmqCancelStep

namespace Tickit

/-- program counter of the `j`-th sender of a list (none: no such sender) -/
def pcAt (l : List Sender) (j : Nat) : Option Pc := (l[j]?).map (·.pc)

/-- program counter of sender `j` -/
abbrev Zmq.pcOf (z : Zmq) (j : Nat) : Option Pc := pcAt z.senders j

theorem pcAt_of_get {l : List Sender} {j : Nat} {s : Sender} (h : l[j]? = some s) :
    pcAt l j = some s.pc := by simp [pcAt, h]

theorem get_of_pcAt {l : List Sender} {j : Nat} {p : Pc} (h : pcAt l j = some p) :
    ∃ s, l[j]? = some s ∧ s.pc = p := by
  unfold pcAt at h
  cases hs : l[j]? with
  | none => simp [hs] at h
  | some s => exact ⟨s, rfl, by simpa [hs] using h⟩

theorem zmq_lt_of_get {α : Type} {l : List α} {i : Nat} {s : α} (h : l[i]? = some s) : i < l.length := by
  rcases Nat.lt_or_ge i l.length with h' | h'
  · exact h'
  · rw [List.getElem?_eq_none h'] at h; cases h

/-- `pcAt` after replacing sender `i` -/
theorem pcAt_set {l : List Sender} {i : Nat} {s : Sender} (hs : l[i]? = some s) (s' : Sender) (j : Nat) :
    pcAt (l.set i s') j = if j = i then some s'.pc else pcAt l j := by
  unfold pcAt
  rw [List.getElem?_set]
  have := zmq_lt_of_get hs
  by_cases hij : i = j
  · subst hij; simp [this]
  · simp [hij, Ne.symm hij]

/-! ### accounting invariant (independent of cancellation) -/

structure ZAcc (z : Zmq) : Prop where
  wlt : ∀ w ∈ z.writes, w.1 < z.senders.length
  q : ∃ s0, z.senders[0]? = some s0 ∧ z.wr 0 ++ s0.infl ++ z.queue = z.queued
  d : ∀ (i : Nat) (s : Sender), 0 < i → z.senders[i]? = some s → z.wr i ++ s.infl ++ s.todo = s.orig

theorem Zmq.wr_congr {z z' : Zmq} (h : z'.writes = z.writes) (i : Nat) : z'.wr i = z.wr i := by
  unfold Zmq.wr; rw [h]

theorem ZAcc.init : ZAcc Zmq.init := by
  constructor <;> simp [Zmq.init, Zmq.wr, Sender.infl]
  intro i s hi h; cases i <;> simp at h; omega

/-- replacing sender `i` by one with the same in-flight message, to-do list and origin, and
leaving writes and queue alone, keeps the accounting. -/
theorem ZAcc.frame {z z' : Zmq} {i : Nat} {s s' : Sender} (h : ZAcc z) (hs : z.senders[i]? = some s)
    (hsend : z'.senders = z.senders.set i s') (hw : z'.writes = z.writes) (hq : z'.queue = z.queue)
    (hqd : z'.queued = z.queued) (hinfl : s'.infl = s.infl) (htodo : s'.todo = s.todo)
    (horig : s'.orig = s.orig) : ZAcc z' := by
  obtain ⟨hwlt, ⟨s0, hs0, hq0⟩, hd⟩ := h
  constructor
  · rw [hw, hsend]; simpa using hwlt
  · rw [Zmq.wr_congr hw, hq, hqd, hsend]
    by_cases h0 : i = 0
    · subst h0
      refine ⟨s', by simp [getElem?_set_some hs], ?_⟩
      have e : s0 = s := Option.some.inj (hs0.symm.trans hs)
      subst e
      rw [hinfl]; exact hq0
    · exact ⟨s0, by simp [getElem?_set_some hs, hs0, Ne.symm h0], hq0⟩
  · intro j t hj0 hj
    rw [Zmq.wr_congr hw]
    rw [hsend, getElem?_set_some hs] at hj
    rcases hj with ⟨rfl, rfl⟩ | ⟨_, hj⟩
    · rw [hinfl, htodo, horig]; exact hd _ s hj0 hs
    · exact hd j t hj0 hj

/-- only lock state / socket / counters change -/
theorem ZAcc.same {z z' : Zmq} (h : ZAcc z) (hsend : z'.senders = z.senders) (hw : z'.writes = z.writes)
    (hq : z'.queue = z.queue) (hqd : z'.queued = z.queued) : ZAcc z' := by
  obtain ⟨hwlt, hq0, hd⟩ := h
  constructor
  · rw [hw, hsend]; exact hwlt
  · rw [Zmq.wr_congr hw, hq, hqd, hsend]; exact hq0
  · intro j t hj0 hj
    rw [Zmq.wr_congr hw]; rw [hsend] at hj; exact hd j t hj0 hj

theorem ZAcc.step {z z' : Zmq} {i : Nat} {s : Sender} (h : ZAcc z) (hs : z.senders[i]? = some s)
    (hc : ZStepCase z i s z') : ZAcc z' := by
  cases hc with
  | takeQ m q h0 hpc hq =>
    subst h0
    obtain ⟨hwlt, ⟨s0, hs0, hq0⟩, hd⟩ := h
    have e : s0 = s := Option.some.inj (hs0.symm.trans hs)
    subst e
    constructor
    · simpa [setSender] using hwlt
    · refine ⟨_, by simp [setSender, getElem?_set_some hs0]; rfl, ?_⟩
      have : s0.infl = [] := by simp [Sender.infl, hpc]
      rw [this, hq] at hq0
      simpa [setSender, Zmq.wr, Sender.infl] using hq0
    · intro j t hj0 hj
      simp only [setSender] at hj
      rw [getElem?_set_some hs0] at hj
      rcases hj with ⟨rfl, _⟩ | ⟨_, hj⟩
      · omega
      · exact hd j t hj0 hj
  | takeT m t h0 hpc ht =>
    obtain ⟨hwlt, ⟨s0, hs0, hq0⟩, hd⟩ := h
    constructor
    · simpa [setSender] using hwlt
    · exact ⟨s0, by simp [setSender, getElem?_set_some hs, hs0, Ne.symm h0], hq0⟩
    · intro j u hj0 hj
      simp only [setSender] at hj
      rw [getElem?_set_some hs] at hj
      rcases hj with ⟨rfl, rfl⟩ | ⟨_, hj⟩
      · have := hd _ s hj0 hs
        have hi : s.infl = [] := by simp [Sender.infl, hpc]
        rw [hi, ht] at this
        simpa [setSender, Zmq.wr, Sender.infl] using this
      · exact hd j u hj0 hj
  | wait hpc hw hor => exact h.same rfl rfl rfl rfl
  | pass hpc hl hm hsk =>
    exact h.frame hs rfl rfl rfl rfl (by simp [Sender.infl, hpc]) rfl rfl
  | call hpc hl hm hsk =>
    exact h.frame hs rfl rfl rfl rfl (by simp [Sender.infl, hpc]) rfl rfl
  | made hpc =>
    exact h.frame hs rfl rfl rfl rfl (by simp [Sender.infl, hpc]) rfl rfl
  | skip hpc hc =>
    exact h.frame hs rfl rfl rfl rfl (by simp [Sender.infl, hpc, hc]) rfl rfl
  | drained hpc =>
    exact h.frame hs rfl rfl rfl rfl (by simp [Sender.infl, hpc]) rfl rfl
  | write m hpc hc =>
    obtain ⟨hwlt, ⟨s0, hs0, hq0⟩, hd⟩ := h
    have hlt := zmq_lt_of_get hs
    have hinfl : s.infl = [m] := by simp [Sender.infl, hpc, hc]
    constructor
    · intro w hw
      simp only [setSender, List.mem_append, List.mem_singleton] at hw
      rcases hw with hw | rfl
      · simpa [setSender] using hwlt w hw
      · simpa [setSender] using hlt
    · show ∃ s0', (z.senders.set i _)[0]? = some s0' ∧
        ({ z with writes := z.writes ++ [(i, m)] } : Zmq).wr 0 ++ s0'.infl ++ z.queue = z.queued
      rw [Zmq.wr_append]
      by_cases h0 : i = 0
      · subst h0
        have e : s0 = s := Option.some.inj (hs0.symm.trans hs)
        subst e
        refine ⟨_, by simp [getElem?_set_some hs0]; rfl, ?_⟩
        rw [hinfl] at hq0
        simpa [Sender.infl] using hq0
      · refine ⟨s0, by simp [getElem?_set_some hs, hs0, Ne.symm h0], ?_⟩
        simpa [h0] using hq0
    · intro j u hj0 hj
      simp only [setSender] at hj
      rw [getElem?_set_some hs] at hj
      show ({ z with writes := z.writes ++ [(i, m)] } : Zmq).wr j ++ u.infl ++ u.todo = u.orig
      rw [Zmq.wr_append]
      rcases hj with ⟨rfl, rfl⟩ | ⟨hne, hj⟩
      · have := hd _ s hj0 hs
        rw [hinfl] at this
        simpa [Sender.infl] using this
      · have := hd j u hj0 hj
        simpa [Ne.symm hne] using this

/-! ### control invariant (lock, socket, counters, cancelled tasks) -/

structure CInv (c : ZmqC) : Prop where
  /-- started = completed + aborted + (one in flight iff the lock is held) -/
  calls : c.base.factoryCalls = c.completed + c.aborted + (if c.base.lockHeld.isSome then 1 else 0)
  comp : c.completed = if c.base.socket then 1 else 0
  excl : c.base.lockHeld.isSome → c.base.socket = false
  holder : ∀ i, pcAt c.base.senders i = some .inFactory → i ∉ c.cancelled → c.base.lockHeld = some i
  held : ∀ h, c.base.lockHeld = some h → h ∉ c.cancelled ∧ pcAt c.base.senders h = some .inFactory
  wait : ∀ w ∈ c.base.waiters, w ∉ c.cancelled ∧ pcAt c.base.senders w = some .wantLock
  nodup : c.base.waiters.Nodup
  sock : ∀ i, (pcAt c.base.senders i = some .ready ∨ pcAt c.base.senders i = some .draining) →
    c.base.socket = true
  wsock : c.base.writes ≠ [] → c.base.socket = true
  clt : ∀ k ∈ c.cancelled, k < c.base.senders.length
  acc : ZAcc c.base

theorem CInv.init : CInv ZmqC.init := by
  refine ⟨rfl, rfl, by simp [ZmqC.init, Zmq.init], ?_, by simp [ZmqC.init, Zmq.init],
    by simp [ZmqC.init, Zmq.init], by simp [ZmqC.init, Zmq.init], ?_, by simp [ZmqC.init, Zmq.init],
    by simp [ZmqC.init], ZAcc.init⟩
  · intro i h; cases i <;> simp [ZmqC.init, Zmq.init, pcAt] at h
  · intro i h; cases i <;> simp [ZmqC.init, Zmq.init, pcAt] at h

theorem Zmq.inFactory_eq {z : Zmq} {i : Nat} {s : Sender} (hs : z.senders[i]? = some s) :
    z.inFactory i = (s.pc == .inFactory) := by simp [Zmq.inFactory, hs]

theorem zmq_nodup_filter {l : List Nat} (p : Nat → Bool) (h : l.Nodup) : (l.filter p).Nodup :=
  List.Nodup.sublist List.filter_sublist h

/-- sender `i` moves between places that are neither the lock queue nor the factory; lock,
socket, waiters and counters stay. -/
theorem CInv.repc {c : ZmqC} {b : Zmq} {i : Nat} {s s' : Sender} (h : CInv c)
    (hs : c.base.senders[i]? = some s) (hsend : b.senders = c.base.senders.set i s')
    (hsk : b.socket = c.base.socket) (hl : b.lockHeld = c.base.lockHeld) (hwt : b.waiters = c.base.waiters)
    (hfc : b.factoryCalls = c.base.factoryCalls)
    (hold : s.pc ≠ .wantLock ∧ s.pc ≠ .inFactory) (hnew : s'.pc ≠ .inFactory)
    (hnew' : (s'.pc = .ready ∨ s'.pc = .draining) → c.base.socket = true)
    (hwr : b.writes ≠ [] → c.base.socket = true) (hacc : ZAcc b) :
    CInv { c with base := b } := by
  obtain ⟨hcalls, hcomp, hexcl, hholder, hheld, hwait, hnodup, hsock, hwsock, hclt, -⟩ := h
  have hpi := pcAt_of_get hs
  refine ⟨?_, ?_, ?_, ?_, ?_, ?_, ?_, ?_, ?_, ?_, hacc⟩ <;> dsimp only
  · rw [hfc, hl]; exact hcalls
  · rw [hsk]; exact hcomp
  · rw [hsk, hl]; exact hexcl
  · intro j hj hjc; rw [hl]; rw [hsend, pcAt_set hs] at hj
    by_cases hji : j = i
    · subst hji; simp at hj; exact absurd hj hnew
    · rw [if_neg hji] at hj; exact hholder j hj hjc
  · intro j hj; rw [hl] at hj
    have := hheld j hj
    refine ⟨this.1, ?_⟩
    rw [hsend, pcAt_set hs]
    by_cases hji : j = i
    · subst hji; rw [hpi] at this; exact absurd (Option.some.inj this.2) hold.2
    · rw [if_neg hji]; exact this.2
  · intro w hw; rw [hwt] at hw
    have := hwait w hw
    refine ⟨this.1, ?_⟩
    rw [hsend, pcAt_set hs]
    by_cases hji : w = i
    · subst hji; rw [hpi] at this; exact absurd (Option.some.inj this.2) hold.1
    · rw [if_neg hji]; exact this.2
  · rw [hwt]; exact hnodup
  · intro j hj; rw [hsk]; rw [hsend, pcAt_set hs] at hj
    by_cases hji : j = i
    · subst hji; simp at hj; exact hnew' hj
    · rw [if_neg hji] at hj; exact hsock j hj
  · intro hw; rw [hsk]; exact hwr hw
  · intro k hk; rw [hsend]; simpa using hclt k hk

theorem beq_inFactory_false {p : Pc} (h : p ≠ .inFactory) : (p == Pc.inFactory) = false := by
  cases p <;> simp at h ⊢

theorem CInv.step {c : ZmqC} {b : Zmq} {i : Nat} {s : Sender} (h : CInv c) (hi : i ∉ c.cancelled)
    (hs : c.base.senders[i]? = some s) (hc : ZStepCase c.base i s b) :
    CInv { c with base := b, completed := c.completed + (if c.base.inFactory i then 1 else 0) } := by
  have hacc := h.acc.step hs hc
  have hpi := pcAt_of_get hs
  rw [Zmq.inFactory_eq hs]
  cases hc with
  | takeQ m q h0 hpc hq =>
    rw [beq_inFactory_false (by simp [hpc])]
    exact h.repc hs rfl rfl rfl rfl rfl (by simp [hpc]) (by simp) (by simp) h.wsock hacc
  | takeT m t h0 hpc ht =>
    rw [beq_inFactory_false (by simp [hpc])]
    exact h.repc hs rfl rfl rfl rfl rfl (by simp [hpc]) (by simp) (by simp) h.wsock hacc
  | skip hpc hcur =>
    rw [beq_inFactory_false (by simp [hpc])]
    exact h.repc hs rfl rfl rfl rfl rfl (by simp [hpc]) (by simp) (by simp) h.wsock hacc
  | drained hpc =>
    rw [beq_inFactory_false (by simp [hpc])]
    exact h.repc hs rfl rfl rfl rfl rfl (by simp [hpc]) (by simp) (by simp) h.wsock hacc
  | write m hpc hcur =>
    rw [beq_inFactory_false (by simp [hpc])]
    have hsk : c.base.socket = true := h.sock i (Or.inl (by rw [hpi, hpc]))
    exact h.repc hs rfl rfl rfl rfl rfl (by simp [hpc]) (by simp) (fun _ => hsk) (fun _ => hsk) hacc
  | wait hpc hw hor =>
    rw [beq_inFactory_false (by simp [hpc])]
    obtain ⟨hcalls, hcomp, hexcl, hholder, hheld, hwait, hnodup, hsock, hwsock, hclt, -⟩ := h
    refine ⟨hcalls, hcomp, hexcl, hholder, hheld, ?_, ?_, hsock, hwsock, hclt, hacc⟩ <;> dsimp only
    · intro w hw'
      simp only [List.mem_append, List.mem_singleton] at hw'
      rcases hw' with hw' | rfl
      · exact hwait w hw'
      · exact ⟨hi, by rw [hpi, hpc]⟩
    · rw [List.nodup_append]
      refine ⟨hnodup, by simp, ?_⟩
      intro a ha b hb; simp at hb; subst hb; intro e; subst e; exact hw ha
  | pass hpc hl hm hsk =>
    rw [beq_inFactory_false (by simp [hpc])]
    obtain ⟨hcalls, hcomp, hexcl, hholder, hheld, hwait, hnodup, hsock, hwsock, hclt, -⟩ := h
    refine ⟨hcalls, hcomp, hexcl, ?_, ?_, ?_, ?_, ?_, hwsock, ?_, hacc⟩ <;> dsimp only [setSender]
    · intro j hj hjc; rw [pcAt_set hs] at hj
      by_cases hji : j = i
      · subst hji; simp at hj
      · rw [if_neg hji] at hj; exact hholder j hj hjc
    · intro j hj; rw [hl] at hj; cases hj
    · intro w hw
      simp only [List.mem_filter, bne_iff_ne] at hw
      have := hwait w hw.1; rw [pcAt_set hs, if_neg hw.2]; exact this
    · exact zmq_nodup_filter _ hnodup
    · intro j _; exact hsk
    · intro k hk; simpa using hclt k hk
  | call hpc hl hm hsk =>
    rw [beq_inFactory_false (by simp [hpc])]
    obtain ⟨hcalls, hcomp, hexcl, hholder, hheld, hwait, hnodup, hsock, hwsock, hclt, -⟩ := h
    refine ⟨?_, hcomp, ?_, ?_, ?_, ?_, ?_, ?_, ?_, ?_, hacc⟩ <;> dsimp only [setSender]
    · simp [hcalls, hl]
    · intro _; exact hsk
    · intro j hj hjc; rw [pcAt_set hs] at hj
      by_cases hji : j = i
      · subst hji; rfl
      · rw [if_neg hji] at hj; have := hholder j hj hjc; rw [hl] at this; cases this
    · intro j hj
      have : j = i := (Option.some.inj hj).symm
      subst this
      exact ⟨hi, by rw [pcAt_set hs]; simp⟩
    · intro w hw
      simp only [List.mem_filter, bne_iff_ne] at hw
      have := hwait w hw.1; rw [pcAt_set hs, if_neg hw.2]; exact this
    · exact zmq_nodup_filter _ hnodup
    · intro j hj; rw [pcAt_set hs] at hj
      by_cases hji : j = i
      · subst hji; simp at hj
      · rw [if_neg hji] at hj; have := hsock j hj; rw [hsk] at this; cases this
    · intro hw; have := hwsock hw; rw [hsk] at this; cases this
    · intro k hk; simpa using hclt k hk
  | made hpc =>
    obtain ⟨hcalls, hcomp, hexcl, hholder, hheld, hwait, hnodup, hsock, hwsock, hclt, -⟩ := h
    have hli : c.base.lockHeld = some i := hholder i (by rw [hpi, hpc]) hi
    have hsk : c.base.socket = false := hexcl (by simp [hli])
    have hwi : i ∉ c.base.waiters := by
      intro hw; have := (hwait i hw).2; rw [hpi, hpc] at this; cases this
    refine ⟨?_, ?_, ?_, ?_, ?_, ?_, hnodup, ?_, ?_, ?_, hacc⟩ <;> dsimp only [setSender]
    · simp [hcalls, hli, hpc]; omega
    · simp [hcomp, hsk, hpc]
    · simp
    · intro j hj hjc; rw [pcAt_set hs] at hj
      by_cases hji : j = i
      · subst hji; simp at hj
      · rw [if_neg hji] at hj; have := hholder j hj hjc; rw [hli] at this; cases this; exact absurd rfl hji
    · intro j hj; cases hj
    · intro w hw
      have := hwait w hw
      have hne : w ≠ i := by intro e; subst e; exact hwi hw
      rw [pcAt_set hs, if_neg hne]; exact this
    · intro j _; rfl
    · intro _; rfl
    · intro k hk; simpa using hclt k hk

end Tickit
