/-
Interleaved nested tick, part 5: whole runs.  `MasterRunInter` (the master loop with every tick any
complete INTERLEAVED execution) is simulated by `MasterRunAny` (every tick an ATOMIC any-order
execution): same handled stimuli, same ticks, and end states with the same key-wise view under every
key (`masterRunInter_any`).  The bookkeeping between ticks (`stimStep`, `tickStart`, `nextStim`,
`raiseInterrupt`) reads and writes the state only through that view.
-/
import TickitModel.Lemmas.InterSimStep
import TickitModel.Lemmas.AnyRun

namespace Tickit

/-- the same key-wise view under EVERY key -/
def LocEq (a b : SimSt) : Prop := ∀ x, a.loc x = b.loc x

theorem LocEq.refl (a : SimSt) : LocEq a a := fun _ => rfl

theorem LocEq.symm {a b : SimSt} (h : LocEq a b) : LocEq b a := fun x => (h x).symm

theorem LocEq.trans {a b c : SimSt} (h : LocEq a b) (h' : LocEq b c) : LocEq a c :=
  fun x => (h x).trans (h' x)

/-- states with the same view under every key are equivalent (when the wakeup maps are dicts) -/
theorem LocEq.equiv {a b : SimSt} (h : LocEq a b) (hwf : a.WakeWF) : a.Equiv b := by
  intro x
  rw [← h x]
  exact SLoc.Equiv.refl (hwf x)

theorem LocEq.wakeWF {a b : SimSt} (h : LocEq a b) (hwf : a.WakeWF) : b.WakeWF := by
  intro x
  rw [← sched_of_loc (h x)]
  exact hwf x

/-- the view spelled out -/
theorem loc_eq_iff (a b : SimSt) (x : Comp) :
    a.loc x = b.loc x ↔ agetD a.devs x {} = agetD b.devs x {} ∧ agetD a.count x 0 = agetD b.count x 0 ∧
      a.sched x = b.sched x ∧ a.obsOf x = b.obsOf x := by
  constructor
  · intro h
    exact ⟨congrArg SLoc.dev h, congrArg SLoc.cnt h, congrArg SLoc.sch h, congrArg SLoc.ob h⟩
  · rintro ⟨h1, h2, h3, h4⟩
    exact SLoc.ext' h1 h2 h3 h4

theorem loc_upsertSched (st : SimSt) (k : Comp) (v : SchedSt) (x : Comp) :
    ({ st with scheds := upsert st.scheds k v } : SimSt).loc x =
      if k = x then { st.loc x with sch := v } else st.loc x := by
  have hs := SimSt.sched_upsert st k v x
  by_cases h : k = x
  · rw [if_pos h]
    exact SLoc.ext' rfl rfl (hs.trans (if_pos h)) rfl
  · rw [if_neg h]
    exact SLoc.ext' rfl rfl (hs.trans (if_neg h)) rfl

theorem locEq_upsertSched {a b : SimSt} (h : LocEq a b) (k : Comp) (v : SchedSt) :
    LocEq { a with scheds := upsert a.scheds k v } { b with scheds := upsert b.scheds k v } := by
  intro x
  rw [loc_upsertSched, loc_upsertSched, h x]

section

variable {S : Static} {orc : Oracle}

/-- **an atomic execution, transplanted to a state with the same view under every key** -/
theorem tickLevelAny_locEq (hS : S.Valid) {lvl : Comp} {t : SimTime} {roots : List Comp}
    {inCh : List (Port × V)} {st : SimSt} {r : SimSt × List (Port × V)}
    (h : TickLevelAny S orc lvl t roots inCh st r) {st' : SimSt} (hst : LocEq st' st) :
    ∃ σ2, TickLevelAny S orc lvl t roots inCh st' (σ2, r.2) ∧ LocEq σ2 r.1 := by
  obtain ⟨σ2, h2, hl⟩ := tickLevelAny_transplant hS h st' (fun x _ => hst x)
  refine ⟨σ2, h2, fun x => ?_⟩
  by_cases hx : AtOrBelow S lvl x
  · exact hl x hx
  · have hne : x ≠ lvl := fun h => hx (Or.inl h)
    have hnb : ¬ S.Below lvl x := fun h => hx (Or.inr h)
    rw [(tickLevelAny_post1 hS h2).frame x hne hnb, (tickLevelAny_post1 hS h).frame x hne hnb]
    exact hst x

theorem raiseInterrupt_locEq (S : Static) :
    ∀ (fuel : Nat) (c : Comp) (a b : SimSt), LocEq a b →
      (raiseInterrupt S fuel c a).2 = (raiseInterrupt S fuel c b).2 ∧
        LocEq (raiseInterrupt S fuel c a).1 (raiseInterrupt S fuel c b).1 := by
  intro fuel
  induction fuel with
  | zero => intro c a b h; exact ⟨rfl, h⟩
  | succ fuel ih =>
    intro c a b h
    simp only [raiseInterrupt]
    cases hp : alookup S.parent c with
    | none => exact ⟨rfl, h⟩
    | some p =>
      simp only []
      by_cases hpe : (p == "") = true
      · simp only [hpe, if_true]
        refine ⟨?_, h⟩
        first | rfl | trivial
      · simp only [hpe, Bool.false_eq_true, if_false]
        have hs : a.sched p = b.sched p := sched_of_loc (h p)
        rw [hs]
        exact ih p _ _ (locEq_upsertSched h p _)

/-- master states with the same view of the simulation state and the same clocks -/
structure MasterSt.LocEq (a b : MasterSt) : Prop where
  sim : Tickit.LocEq a.sim b.sim
  tickerTime : a.tickerTime = b.tickerTime
  lastReal : a.lastReal = b.lastReal
  now : a.now = b.now

theorem MasterSt.LocEq.refl (a : MasterSt) : a.LocEq a := ⟨Tickit.LocEq.refl _, rfl, rfl, rfl⟩

theorem dueReal_locEq {a b : MasterSt} (h : a.LocEq b) (s : Speed) (w : SimTime) :
    dueReal a s w = dueReal b s w := by
  unfold dueReal
  rw [h.tickerTime, h.lastReal, h.now]

theorem nextStim_locEq {a b : MasterSt} (h : a.LocEq b) (s : Speed) (whenT : Option SimTime)
    (stims : List Stim) : nextStim a s whenT stims = nextStim b s whenT stims := by
  cases stims with
  | nil => rfl
  | cons st rest =>
    cases whenT with
    | none => rfl
    | some w => simp only [nextStim, Option.map_some, dueReal_locEq h]

theorem stimStep_locEq (S : Static) (fuel : Nat) (s : Speed) {a b : MasterSt} (h : a.LocEq b)
    (st : Stim) : (stimStep S fuel s a st).LocEq (stimStep S fuel s b st) := by
  obtain ⟨htop, hsim⟩ := raiseInterrupt_locEq S fuel st.comp a.sim b.sim h.sim
  have h0 : (raiseInterrupt S fuel st.comp a.sim).1.sched "" =
      (raiseInterrupt S fuel st.comp b.sim).1.sched "" := sched_of_loc (hsim "")
  unfold stimStep
  simp only []
  rw [h.now, h.tickerTime, h.lastReal, htop, h0]
  exact ⟨locEq_upsertSched hsim _ _, rfl, rfl, rfl⟩

theorem tickStart_locEq {a b : SimSt} (h : LocEq a b) (cs : List Comp) :
    LocEq (tickStart a cs) (tickStart b cs) := by
  unfold tickStart
  simp only []
  rw [sched_of_loc (h "")]
  exact locEq_upsertSched h _ _

/-- **every run over interleaved ticks is matched by a run over atomic ticks**: the same stimuli are
handled, the same ticks are done, and the final master states have the same clocks and the same
view of the simulation state under every key. -/
theorem masterRunInter_any (hS : S.Valid) {fuel : Nat} {s : Speed} {steps nTicks : Nat}
    {m : MasterSt} {stims : List Stim} {acc : List TickRec} {r : MasterSt × List TickRec}
    (h : MasterRunInter S orc fuel s steps nTicks m stims acc r) :
    ∀ m' : MasterSt, m'.LocEq m →
      ∃ r', MasterRunAny S orc fuel s steps nTicks m' stims acc r' ∧ r'.1.LocEq r.1 ∧ r'.2 = r.2 := by
  induction h with
  | outOfSteps => intro m' hm; exact ⟨(m', _), .outOfSteps, hm, rfl⟩
  | ticksDone => intro m' hm; exact ⟨(m', _), .ticksDone, hm, rfl⟩
  | @stim steps nTicks m stims acc st rest r hs _ ih =>
    intro m' hm
    have h0 : m'.sim.sched "" = m.sim.sched "" := sched_of_loc (hm.sim "")
    obtain ⟨r', hr', e1, e2⟩ := ih _ (stimStep_locEq S fuel s hm st)
    refine ⟨r', .stim (st := st) (rest := rest) ?_ hr', e1, e2⟩
    rw [h0, nextStim_locEq hm]
    exact hs
  | @tick steps nTicks m stims acc comps w sim2 out r hs hfw htick _ ih =>
    intro m' hm
    have h0 : m'.sim.sched "" = m.sim.sched "" := sched_of_loc (hm.sim "")
    obtain ⟨st'', ha, hl⟩ := tickInter_atomic hS htick
    obtain ⟨σ2, ha2, hl2⟩ := tickLevelAny_locEq hS ha (tickStart_locEq hm.sim comps)
    simp only at ha2 hl2 hl
    have hnew : MasterSt.LocEq
        { sim := σ2, tickerTime := w, lastReal := dueReal m' s w, now := dueReal m' s w }
        { sim := sim2, tickerTime := w, lastReal := dueReal m s w, now := dueReal m s w } :=
      ⟨fun x => (hl2 x).trans (hl x), rfl, dueReal_locEq hm s w, dueReal_locEq hm s w⟩
    obtain ⟨r', hr', e1, e2⟩ := ih _ hnew
    refine ⟨r', .tick (comps := comps) (w := w) (sim2 := σ2) (out := out) ?_ ?_ ha2 ?_, e1, e2⟩
    · rw [h0, nextStim_locEq hm]; exact hs
    · rw [h0]; exact hfw
    · rw [← dueReal_locEq hm s w] at hr'
      exact hr'
  | @idle steps nTicks m stims acc hs hn =>
    intro m' hm
    have h0 : m'.sim.sched "" = m.sim.sched "" := sched_of_loc (hm.sim "")
    refine ⟨(m', _), .idle ?_ ?_, hm, rfl⟩
    · rw [h0, nextStim_locEq hm]; exact hs
    · rw [h0]; exact hn

/-- the initial tick -/
theorem masterInitialInter_any (hS : S.Valid) {t0 : SimTime} {now : Int} {r0 : MasterSt × TickRec}
    (h : MasterInitialInter S orc t0 now r0) :
    ∃ r0', MasterInitialAny S orc t0 now r0' ∧ r0'.1.LocEq r0.1 ∧ r0'.2 = r0.2 := by
  cases h with
  | @mk L st out hL htick =>
    obtain ⟨st'', ha, hl⟩ := tickInter_atomic hS htick
    exact ⟨_, .mk hL ha, ⟨hl, rfl, rfl, rfl⟩, rfl⟩

end

end Tickit
