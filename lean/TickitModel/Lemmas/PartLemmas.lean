/-
Helper lemmas for C10: a part of a simulation that no wire connects to the rest.
-/
import TickitModel.Lemmas.TickEqLemmas
import TickitModel.Lemmas.FlatDetLemmas
import TickitModel.Lemmas.RouterLemmas

namespace Tickit

/-- `wa` is the wiring `w` restricted to the component set `A`, and no wire of `w` crosses
the border of `A` (in either direction). -/
structure IsPart (w wa : Wiring) (A : Comp → Prop) : Prop where
  conn_iff : ∀ a p b q, A b → (w.Conn a p b q ↔ wa.Conn a p b q)
  closed : ∀ a p b q, w.Conn a p b q → (A a ↔ A b)
  inside : ∀ a p b q, wa.Conn a p b q → A a ∧ A b
  ups_some : ∀ c, A c → ((w.ups c).isSome ↔ (wa.ups c).isSome)
  /-- what a root drags into a tick is the same in the part as in the whole -/
  extent_iff : ∀ roots rootsA c, A c → (∀ r, r ∈ rootsA ↔ r ∈ roots ∧ A r) →
    (c ∈ extent w roots ↔ c ∈ extent wa rootsA)

/-! ### one tick of the part and of the whole -/

section Tick
variable {Val : Type}

/-- a `Fed` port transfers between two wirings that have the same wires into `c` and whose
sources answer alike. -/
theorem fed_transfer {w w' : Wiring} {react : React Val} {tr1 tr2 : List (Ev Val)} {c : Comp}
    (hconn : ∀ a p q, w.Conn a p c q → w'.Conn a p c q)
    (h : ∀ a p q, w.Conn a p c q →
      (dispatchOf tr1 a).map (answerOf react) = (dispatchOf tr2 a).map (answerOf react))
    {q : Port} {v : Val} (hf : Fed w react tr1 c q v) : Fed w' react tr2 c q v := by
  obtain ⟨a, p, d, hc, hd, hv⟩ := hf
  have := h a p q hc
  rw [hd, Option.map_some] at this
  obtain ⟨d', hd', he⟩ := Option.map_eq_some_iff.1 this.symm
  exact ⟨a, p, d', hconn a p q hc, hd', he ▸ hv⟩

theorem IsPart.tick_same {w wa : Wiring} {A : Comp → Prop} (hp : IsPart w wa A)
    (hw : RouterOK w) (hwa : RouterOK wa) (hacyca : wa.Acyclic)
    {react : React Val} (hr : ReactWF react) (hext : Det.ReactExtN react)
    {t : SimTime} {roots rootsA : List Comp} (hroots : ∀ r, r ∈ rootsA ↔ r ∈ roots ∧ A r)
    {s sa : TickSys Val} (h : s.Reachable w react t roots) (ha : sa.Reachable wa react t rootsA)
    (hf : s.tk.toUpdate = []) (hfa : sa.tk.toUpdate = []) (c : Comp) (hc : A c) :
    SameDispatch (dispatchOf s.trace c) (dispatchOf sa.trace c) := by
  classical
  obtain ⟨rank, hrank⟩ := hacyca
  have hn1 := (Det.reachable_insInv hw h).2
  have hn2 := (Det.reachable_insInv hwa ha).2
  suffices key : ∀ n c, A c → rank c < n →
      SameDispatch (dispatchOf s.trace c) (dispatchOf sa.trace c) from
    key _ c hc (Nat.lt_succ_self _)
  intro n
  induction n with
  | zero => intro c _ hc; omega
  | succ n ih =>
    intro c hAc hc
    have hext_iff := hp.extent_iff roots rootsA c hAc hroots
    cases h1c : dispatchOf s.trace c with
    | none =>
      have hce := (dispatchOf_eq_none_iff_of_complete hw hr h hf c).1 h1c
      rw [(dispatchOf_eq_none_iff_of_complete hwa hr ha hfa c).2 (fun h' => hce (hext_iff.2 h'))]
      trivial
    | some d1 =>
      obtain ⟨hce, _, hsp1⟩ := dispatch_spec hw hr h h1c
      cases h2c : dispatchOf sa.trace c with
      | none =>
        exact absurd (hext_iff.1 hce)
          ((dispatchOf_eq_none_iff_of_complete hwa hr ha hfa c).1 h2c)
      | some d2 =>
        obtain ⟨_, ⟨us, hus⟩, hsp2⟩ := dispatch_spec hwa hr ha h2c
        have hP : ∀ a p q, wa.Conn a p c q →
            (dispatchOf s.trace a).map (answerOf react) =
              (dispatchOf sa.trace a).map (answerOf react) := by
          intro a p q hconn
          have := hrank c us a hus ((hwa.ups_edge c us hus a).2 ⟨p, q, hconn⟩)
          exact Det.sameDispatch_answer hext hn1 hn2 (ih a (hp.inside _ _ _ _ hconn).1 (by omega))
        have hci : ∀ a p q, w.Conn a p c q ↔ wa.Conn a p c q := fun a p q => hp.conn_iff a p c q hAc
        have hfed : ∀ q v, Fed w react s.trace c q v ↔ Fed wa react sa.trace c q v :=
          fun q v => ⟨fed_transfer (fun a p q => (hci a p q).1) (fun a p q h' => hP a p q ((hci a p q).1 h')),
            fed_transfer (fun a p q => (hci a p q).2) (fun a p q h' => (hP a p q h').symm)⟩
        have hrt : c ∈ roots ↔ c ∈ rootsA := ⟨fun h' => (hroots c).2 ⟨h', hAc⟩, fun h' => ((hroots c).1 h').1⟩
        rcases hsp1 with ⟨i1, rfl, hr1, hi1⟩ | ⟨rfl, hnr1, hno1⟩ <;>
          rcases hsp2 with ⟨i2, rfl, hr2, hi2⟩ | ⟨rfl, hnr2, hno2⟩
        · exact ⟨rfl, rfl, fun q => option_ext_some (fun v =>
            (hi1 q v).trans ((hfed q v).trans (hi2 q v).symm))⟩
        · rcases hr1 with hr1 | ⟨q, v, hr1⟩
          · exact absurd (hrt.1 hr1) hnr2
          · exact absurd ((hfed q v).1 hr1) (hno2 q v)
        · rcases hr2 with hr2 | ⟨q, v, hr2⟩
          · exact absurd (hrt.2 hr2) hnr1
          · exact absurd ((hfed q v).2 hr2) (hno1 q v)
        · exact ⟨rfl, rfl⟩

end Tick

/-! ### staying inside a part -/

/-- on a well-formed wiring, everything a root inside `A` drags in lies in `A`, as soon as no
wire leaves `A`. -/
theorem dependants_inside {w : Wiring} (hwf : w.WF) {A : Comp → Prop}
    (hcl : ∀ a p b q, w.Conn a p b q → A a → A b) {r : Comp} (hr : A r) :
    ∀ c ∈ w.dependants r, A c :=
  Wiring.dependants_sound hwf r A hr (fun a b ha ⟨p, q, hc⟩ => hcl a p b q hc ha)

theorem IsPart.extent_inside {w wa : Wiring} {A : Comp → Prop} (hp : IsPart w wa A) (hwf : w.WF)
    {rootsA : List Comp} (hA : ∀ r ∈ rootsA, A r) {c : Comp} (hc : c ∈ extent w rootsA) : A c := by
  obtain ⟨r, hr, hcr⟩ := (Det.mem_extent_iff w rootsA c).1 hc
  exact dependants_inside hwf (fun a p b q h ha => (hp.closed a p b q h).1 ha) (hA r hr) c hcr

/-- `IsPart` from facts about wires only, for well-formed wirings: the extent clause follows. -/
theorem IsPart.of_wf {w wa : Wiring} {A : Comp → Prop} (hw : w.WF) (hwa : wa.WF)
    (conn_iff : ∀ a p b q, A b → (w.Conn a p b q ↔ wa.Conn a p b q))
    (closed : ∀ a p b q, w.Conn a p b q → (A a ↔ A b))
    (inside : ∀ a p b q, wa.Conn a p b q → A a ∧ A b)
    (ups_some : ∀ c, A c → ((w.ups c).isSome ↔ (wa.ups c).isSome)) : IsPart w wa A where
  conn_iff := conn_iff
  closed := closed
  inside := inside
  ups_some := ups_some
  extent_iff := by
    intro roots rootsA c hc hroots
    rw [Det.mem_extent_iff, Det.mem_extent_iff]
    constructor
    · rintro ⟨r, hr, hcr⟩
      have key : ∀ x ∈ w.dependants r, A x → A r ∧ x ∈ wa.dependants r := by
        refine Wiring.dependants_sound hw r _ (fun h => ⟨h, (Wiring.dependants_closed wa r).1⟩) ?_
        rintro a b ih ⟨p, q, hconn⟩ hb
        obtain ⟨hAr, har⟩ := ih ((closed a p b q hconn).2 hb)
        exact ⟨hAr, (Wiring.dependants_closed wa r).2 a har b ⟨p, q, (conn_iff a p b q hb).1 hconn⟩⟩
      obtain ⟨hAr, hcr'⟩ := key c hcr hc
      exact ⟨r, (hroots r).2 ⟨hr, hAr⟩, hcr'⟩
    · rintro ⟨r, hr, hcr⟩
      refine ⟨r, ((hroots r).1 hr).1, ?_⟩
      refine Wiring.dependants_sound hwa r (fun x => x ∈ w.dependants r)
        (Wiring.dependants_closed w r).1 ?_ c hcr
      rintro a b ha ⟨p, q, hconn⟩
      exact (Wiring.dependants_closed w r).2 a ha b
        ⟨p, q, (conn_iff a p b q (inside a p b q hconn).2).2 hconn⟩

/-! ### the union of two wirings over disjoint component sets -/

theorem Wiring.conn_append {wa wb : Wiring} {a : Comp} {p : Port} {b : Comp} {q : Port} :
    (wa ++ wb).Conn a p b q ↔ wa.Conn a p b q ∨ (a ∉ akeys wa ∧ wb.Conn a p b q) := by
  unfold Wiring.Conn
  rw [alookup_append]
  cases h : alookup wa a with
  | none =>
    have := rt_alookup_eq_none_iff.1 h
    simp [this]
  | some ports =>
    have : a ∈ akeys wa := mem_akeys_of_alookup h
    simp [this]

theorem Wiring.mem_components_of_mem_akeys {w : Wiring} {c : Comp} (h : c ∈ akeys w) :
    c ∈ w.components := (Wiring.mem_components w c).2 (Or.inr h)

theorem Wiring.WF_append {wa wb : Wiring} (hwa : wa.WF) (hwb : wb.WF)
    (hdisj : ∀ c, c ∈ akeys wa → c ∉ akeys wb) : (wa ++ wb).WF := by
  refine ⟨?_, ?_⟩
  · unfold DictWF
    rw [akeys_append, List.nodup_append]
    exact ⟨hwa.1, hwb.1, fun a ha b hb hab => hdisj a ha (hab ▸ hb)⟩
  · intro e he
    rcases List.mem_append.1 he with h | h
    · exact hwa.2 e h
    · exact hwb.2 e h

theorem Wiring.mem_components_append_left {wa wb : Wiring} {c : Comp} (h : c ∈ wa.components) :
    c ∈ (wa ++ wb).components := by
  rw [Wiring.mem_components] at h ⊢
  rcases h with h | h
  · rw [Wiring.mem_inputComponents] at h ⊢
    obtain ⟨ent, hent, rest⟩ := h
    exact Or.inl ⟨ent, List.mem_append_left _ hent, rest⟩
  · exact Or.inr (by rw [akeys_append]; exact List.mem_append_left _ h)

theorem IsPart.append (wa wb : Wiring) (hwa : wa.WF) (hwb : wb.WF)
    (hdisj : ∀ c, c ∈ wa.components → c ∉ wb.components) :
    IsPart (wa ++ wb) wa (fun c => c ∈ wa.components) := by
  have hkeys : ∀ c, c ∈ akeys wa → c ∉ akeys wb := fun c hc hc' =>
    hdisj c (Wiring.mem_components_of_mem_akeys hc) (Wiring.mem_components_of_mem_akeys hc')
  have hwf : (wa ++ wb).WF := Wiring.WF_append hwa hwb hkeys
  have hsrc : ∀ {w : Wiring} {a p b q}, w.Conn a p b q → a ∈ w.components := fun h =>
    Wiring.mem_components_of_mem_akeys (Wiring.mem_akeys_of_conn h)
  have htgt : ∀ {w : Wiring}, w.WF → ∀ {a p b q}, w.Conn a p b q → b ∈ w.components :=
    fun {w} hw {a p b q} h => (Wiring.mem_components_iff' hw b).2 (Or.inr ⟨a, p, q, h⟩)
  refine IsPart.of_wf hwf hwa ?_ ?_ ?_ ?_
  · intro a p b q hb
    rw [Wiring.conn_append]
    constructor
    · rintro (h | ⟨_, h⟩)
      · exact h
      · exact absurd (htgt hwb h) (hdisj b hb)
    · exact Or.inl
  · intro a p b q h
    rcases Wiring.conn_append.1 h with h | ⟨_, h⟩
    · exact ⟨fun _ => htgt hwa h, fun _ => hsrc h⟩
    · exact ⟨fun ha => absurd (hsrc h) (hdisj a ha), fun hb => absurd (htgt hwb h) (hdisj b hb)⟩
  · intro a p b q h
    exact ⟨hsrc h, htgt hwa h⟩
  · intro c hc
    rw [Wiring.ups_isSome_iff', Wiring.ups_isSome_iff']
    exact ⟨fun _ => hc, fun _ => Wiring.mem_components_append_left hc⟩

/-! ### why `extent_stays_inside` needs `w.WF`

A wiring with a duplicated (shadowed) port key: `Conn` reads the first entry (Python could
never hold this value), `children` folds over both. -/

def ceW : Wiring := [("a", [("o", []), ("o", [("b", "i")])])]
def ceWa : Wiring := [("a", [])]

theorem ceW_noConn (x : Comp) (p : Port) (y : Comp) (q : Port) : ¬ ceW.Conn x p y q := by
  rintro ⟨ports, ins, h1, h2, h3⟩
  simp only [ceW, alookup_cons, alookup_nil] at h1
  split at h1
  · cases h1
    simp only [alookup_cons, alookup_nil] at h2
    split at h2
    · cases h2; simp at h3
    · simp_all
  · cases h1

theorem ceWa_noConn (x : Comp) (p : Port) (y : Comp) (q : Port) : ¬ ceWa.Conn x p y q := by
  rintro ⟨ports, ins, h1, h2, h3⟩
  simp only [ceWa, alookup_cons, alookup_nil] at h1
  split at h1
  · cases h1; simp at h2
  · cases h1

theorem mem_dependants_leaf {w : Wiring} {r : Comp} (h : alookup w r = none) (x : Comp) :
    x ∈ w.dependants r ↔ x = r := by
  have : w.children r = none := by simp [Wiring.children, h]
  simp [Wiring.dependants, Wiring.bfsFuel, bfs, this]

theorem ce_a_mem (w : Wiring) (hw : ∀ r, r ≠ "a" → alookup w r = none) (roots : List Comp) :
    "a" ∈ extent w roots ↔ "a" ∈ roots := by
  rw [Det.mem_extent_iff]
  constructor
  · rintro ⟨r, hr, h⟩
    by_cases hra : r = "a"
    · exact hra ▸ hr
    · exact ((mem_dependants_leaf (hw r hra) "a").1 h) ▸ hr
  · intro h
    exact ⟨"a", h, (Wiring.dependants_closed w "a").1⟩

theorem ce_isPart : IsPart ceW ceWa (fun c => c = "a") where
  conn_iff := fun a p b q _ => ⟨fun h => absurd h (ceW_noConn _ _ _ _), fun h => absurd h (ceWa_noConn _ _ _ _)⟩
  closed := fun a p b q h => absurd h (ceW_noConn _ _ _ _)
  inside := fun a p b q h => absurd h (ceWa_noConn _ _ _ _)
  ups_some := by
    rintro c rfl
    decide
  extent_iff := by
    rintro roots rootsA c rfl hroots
    rw [ce_a_mem ceW (fun r hr => by simp [ceW, alookup_cons, Ne.symm hr]),
      ce_a_mem ceWa (fun r hr => by simp [ceWa, alookup_cons, Ne.symm hr]), hroots]
    simp

/-- `IsPart` alone does not keep the extent inside: the root `a ∈ A` drags in `b ∉ A`. -/
theorem ce_extent : "b" ∈ extent ceW ["a"] ∧ ¬ ("b" = "a") := by decide

end Tickit
