/-
Helper lemmas for C10: a part of a simulation that no wire connects to the rest.
-/
import TickitModel.Lemmas.TickEqLemmas
import TickitModel.Lemmas.FlatDetLemmas

namespace Tickit

/-- `wa` is the wiring `w` restricted to the component set `A`, and no wire of `w` crosses
the border of `A` (in either direction). -/
structure IsPart (w wa : Wiring) (A : Comp → Prop) : Prop where
  conn_iff : ∀ a p b q, A b → (w.Conn a p b q ↔ wa.Conn a p b q)
  closed : ∀ a p b q, w.Conn a p b q → (A a ↔ A b)
  inside : ∀ a p b q, wa.Conn a p b q → A a ∧ A b
  ups_some : ∀ c, A c → ((w.ups c).isSome ↔ (wa.ups c).isSome)
  /-- what a root drags into a tick is the same in the part as in the whole -/
  extent_iff : ∀ roots rootsA c, A c → (∀ r, r ∈ rootsA ↔ r ∈ roots ∧ A r) →
    (c ∈ extent w roots ↔ c ∈ extent wa rootsA)

end Tickit
