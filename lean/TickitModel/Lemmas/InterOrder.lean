/-
Interleaved nested tick, part 6 (C01 through nesting, ORDER of updates, fully concurrent).

In an interleaved execution the global observation list is written in real-time order by all active
levels.  This file proves that whatever feeds an updated device (`S.Feeds`) was updated BEFORE it,
directly on the small-step semantics:

* `ILive T x`: in configuration tree `T`, `x` MAY still be updated in this tick — it belongs to a
  component of an active level that the level's ticker still has in `to_update` and whose inner tick
  (if any) is not open, or it is live in an open inner level.  Liveness is never created by a step
  (`to_update` only shrinks; an inner level is opened only for a live component).
* when a device `y` is updated, nothing that feeds `y` is live any more: at the level where the
  places of `x` and `y` in the nesting tree separate, the component that holds `y` has been
  dispatched, so (C01 of that level's ticker, `PreInv.gate`, along the path of wires) the component
  that holds `x` is no longer in `to_update` — whereas a live `x` needs it there.
* a device can only be updated while it is live.

The ticker invariant `PreInv` of every active level is that of its virtual atomic loop (`IVirt`);
`IKids`: the dispatch of an open inner level is still pending at the outer level.
-/
import TickitModel.Lemmas.InterSimStep
import TickitModel.Lemmas.AnyOrder

namespace Tickit

variable {S : Static} {orc : Oracle}

/-! ### the ticker invariant of an active level -/

theorem LoopReach.preInv {L : Level} {inCh : List (Port × V)} {ls ls1 : LoopSt}
    (h : LoopReach S orc L inCh ls ls1) {t : SimTime} {roots : List Comp} :
    (∃ tr, PreInv L.wiring t roots ls.tk.toUpdate ls.pending tr ∧ ls.tk.time = t) →
      ∃ tr1, PreInv L.wiring t roots ls1.tk.toUpdate ls1.pending tr1 ∧ ls1.tk.time = t := by
  induction h with
  | refl => exact fun h => h
  | @snoc ls1 i d st' ch ca tk' ds _ h1 _ h3 ih =>
    intro h0
    obtain ⟨tr1, hp1, ht1⟩ := ih h0
    obtain ⟨_, _, hsl, htu, htk, _⟩ := sim_propagate_eq_ok h3
    have hpre := (hp1.answer h1 ch).schedule (tk := ls1.tk.afterAnswer L.wiring d.comp ch) ht1 hsl
    refine ⟨tr1 ++ [Ev.answer d.comp ch] ++ ds.map Ev.dispatch, ?_, htk.trans ht1⟩
    show PreInv L.wiring t roots tk'.toUpdate _ _
    rw [htu]
    exact hpre.1

theorem preInv_call {w : Wiring} {t : SimTime} {roots : List Comp} {tk : Ticker V}
    {ds : List (Dispatch V)}
    (hcall : (Ticker.call w t roots : Except TickErr (Ticker V × List (Dispatch V))) = .ok (tk, ds)) :
    ∃ tr, PreInv w t roots tk.toUpdate ds tr ∧ tk.time = t := by
  obtain ⟨hs, htu, htime, _⟩ := sim_call_eq_ok hcall
  have hpre := (PreInv.start (Val := V) w t roots).schedule rfl hs
  refine ⟨ds.map Ev.dispatch, ?_, htime⟩
  rw [htu]
  simpa using hpre.1

/-- the ticker of every active level satisfies the ticker invariant -/
theorem IVirt.preInv {st : SimSt} {fr : IFrame} {kids : List ITree} {roots : List Comp}
    {σ0 σ : SimSt} (hv : IVirt S orc st (.node fr kids) roots σ0 σ) :
    ∃ tr, PreInv fr.L.wiring fr.t roots fr.tk.toUpdate fr.pending tr := by
  cases hv with
  | mk kr kv hL hcall hreach hown hinj hkid hrec =>
    obtain ⟨tr, hp, _⟩ := hreach.preInv (t := fr.t) (roots := roots) (preInv_call hcall)
    exact ⟨tr, hp⟩

/-- "no longer in `to_update`" propagates upstream: whoever is resolved (answered, or not taking
part) has only resolved upstreams -/
theorem PreInv.none_up {w : Wiring} (hw : RouterOK w) {t : SimTime} {roots : List Comp}
    {tu : List (Comp × Bool)} {pending : List (Dispatch V)} {tr : List (Ev V)}
    (hp : PreInv w t roots tu pending tr) {a b : Comp} (he : w.Edge a b) (hups : (w.ups b).isSome)
    (hb : alookup tu b = none) : alookup tu a = none := by
  by_cases ha : a ∈ extent w roots
  · have hbe : b ∈ extent w roots := flt_extent_closed ha he
    obtain ⟨ch, hch⟩ := (hp.resolved b hbe).1 hb
    obtain ⟨d, hd⟩ := hp.answer_dispatched hch
    obtain ⟨hdm, hdc⟩ := dispatchOf_eq_some hd
    obtain ⟨pre, post, htr⟩ := List.append_of_mem hdm
    obtain ⟨us, hus⟩ := Option.isSome_iff_exists.1 hups
    have hau : a ∈ us := (hw.ups_edge _ us hus a).2 he
    obtain ⟨cha, hcha⟩ := hp.order pre d post htr us (hdc ▸ hus) a hau ha
    exact (hp.resolved a ha).2 ⟨cha, by rw [htr]; exact List.mem_append_left _ hcha⟩
  · apply Classical.byContradiction
    intro hne
    exact ha (hp.keys_ext a hne)

/-- C01 along paths, as a state property: when a component is dispatched (flagged), everything
with a path of wires into it is no longer in `to_update` -/
theorem PreInv.path_none {w : Wiring} (hw : RouterOK w) (hwf : w.WF)
    (hud : ∀ c ∈ w.components, (w.ups c).isSome) {t : SimTime} {roots : List Comp}
    {tu : List (Comp × Bool)} {pending : List (Dispatch V)} {tr : List (Ev V)}
    (hp : PreInv w t roots tu pending tr) {c1 c2 : Comp} (hpath : w.Path c1 c2)
    (h2 : alookup tu c2 = some true) : alookup tu c1 = none := by
  induction hpath with
  | @single a b e =>
    obtain ⟨p, q, hc⟩ := e
    have hbm := (Wiring.conn_mem_components hwf hc).2
    obtain ⟨us, hus⟩ := Option.isSome_iff_exists.1 (hud b hbm)
    exact hp.gate b h2 us hus a ((hw.ups_edge _ us hus a).2 ⟨p, q, hc⟩)
  | @cons a b c e _ ih =>
    obtain ⟨p, q, hc⟩ := e
    have hbm := (Wiring.conn_mem_components hwf hc).2
    exact hp.none_up hw ⟨p, q, hc⟩ (hud b hbm) (ih h2)

/-- `to_update` only shrinks when an answer is propagated; the answering component leaves it -/
theorem propagate_shrinks {w : Wiring} {tk tk' : Ticker V} {src : Comp} {t : SimTime}
    {ch : List (Port × V)} {ds : List (Dispatch V)} (h : tk.propagate w src t ch = .ok (tk', ds))
    (hn : (akeys tk.toUpdate).Nodup) :
    (∀ c, alookup tk'.toUpdate c ≠ none → alookup tk.toUpdate c ≠ none) ∧
      alookup tk'.toUpdate src = none := by
  obtain ⟨_, _, _, htu, _, _⟩ := sim_propagate_eq_ok h
  rw [htu]
  constructor
  · intro c hc hc0
    exact hc (alookup_markDispatched_eq_none.2 (alookup_aerase_eq_none hc0))
  · exact alookup_markDispatched_eq_none.2 (alookup_aerase_self hn src)

/-! ### liveness -/

/-- `x` may still be updated in this tick -/
inductive ILive (S : Static) : ITree → Comp → Prop
  | here {fr : IFrame} {kids : List ITree} {c x : Comp} :
      alookup S.parent c = some fr.L.name → S.Own c x → alookup fr.tk.toUpdate c ≠ none →
      (∀ k ∈ kids, k.name ≠ c) → ILive S (.node fr kids) x
  | inner {fr : IFrame} {kids : List ITree} {k : ITree} {x : Comp} :
      k ∈ kids → ILive S k x → ILive S (.node fr kids) x

/-- the `Input` of every open inner level is still pending at the outer level -/
inductive IKids : ITree → Prop
  | mk {fr : IFrame} {kids : List ITree} :
      (∀ k ∈ kids, Dispatch.input k.name k.fr.t k.fr.inCh ∈ fr.pending) →
      (∀ k ∈ kids, IKids k) → IKids (.node fr kids)

/-- what is live in a configuration lies below its level -/
theorem ILive.below_level (hS : S.Valid) {T : ITree} {x : Comp} (h : ILive S T x) :
    ∀ {st : SimSt} {roots : List Comp} {σ0 σ : SimSt}, IVirt S orc st T roots σ0 σ →
      S.Below T.name x := by
  induction h with
  | here hpar hown _ _ => intro st roots σ0 σ _; exact hown.below hpar
  | @inner fr kids k x hk _ ih =>
    intro st roots σ0 σ hv
    cases hv with
    | mk kr kv hL hcall hreach hown hinj hkid hrec =>
      obtain ⟨k1, k2, _⟩ := hkid k hk
      exact (ih (hrec k hk)).lift k2 (hS.sys_ne_master k1)

theorem devAfter_obs (st : SimSt) (c : Comp) (t : SimTime) (ins : List (Port × V)) (resp : DevResp) :
    (devAfter st c t ins resp).1.obs = st.obs ++ [⟨c, t, (agetD st.devs c {}).merge ins⟩] := rfl

/-- a device has nothing below it -/
theorem own_of_device (hS : S.Valid) {c x p : Comp} (hpar : alookup S.parent c = some p)
    (hdev : S.isSys c = false) (h : S.Own c x) : x = c := by
  rcases h with h | ⟨_, hb⟩
  · exact h
  · rcases hb.isSys hS.toWF with h | h
    · exact absurd h (hS.child_ne_master hpar)
    · rw [hdev] at h; cases h

end Tickit
