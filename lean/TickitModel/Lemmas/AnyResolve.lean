/-
Any-order nested tick, part 10: every wire of the RESOLVED (flattened) device-level wiring is a
`Feeds` pair.  `S.resolve` follows an output through `expose` into systems and through `external`
out of them; where it ends (device `x`) relative to where it started (output of component `a` of
level `L`) is one of three positions (`Upstream`), each of which makes `x` feed whatever `a` feeds.
-/
import TickitModel.Lemmas.AnyOrder
import TickitModel.Lemmas.FlattenFlat

namespace Tickit

/-- where the device `x` that drives an output of component `a` of level `L` lives -/
inductive Upstream (S : Static) (L : Level) (a x : Comp) : Prop
  /-- inside `a` (or `a` itself) -/
  | inside : alookup S.parent a = some L.name → S.Own a x → Upstream S L a x
  /-- inside a sibling `c` with a path of wires into `a` (pass-through systems) -/
  | side (c : Comp) : alookup S.parent c = some L.name → alookup S.parent a = some L.name →
      L.wiring.Path c a → S.Own c x → Upstream S L a x
  /-- outside the system `L`: at an enclosing level `M`, inside `c1`, with a path of wires into
  the component `c2` that contains the whole level `L` -/
  | out (M : Level) (c1 c2 : Comp) : M ∈ S.levels → alookup S.parent c1 = some M.name →
      alookup S.parent c2 = some M.name → M.wiring.Path c1 c2 → S.Own c1 x → S.Own c2 L.name →
      Upstream S L a x

section

variable {S : Static}

/-- a child of something that belongs to `c` belongs to `c` -/
theorem Static.Own.child (hS : S.Valid) {c P y : Comp} (h : S.Own c P) (hc : c ≠ "")
    (hy : alookup S.parent y = some P) : S.Own c y := by
  rcases h with rfl | ⟨_, hb⟩
  · exact Or.inr ⟨hc, .direct hy⟩
  · exact Or.inr ⟨hc, .step hy (hS.below_ne_master hb) hb⟩

/-- if a child `a` of level `lvl` belongs to `c`, then `c = a` or the whole level belongs to `c` -/
theorem Static.Own.parent_cases {c a lvl : Comp} (h : S.Own c a) (ha : alookup S.parent a = some lvl) :
    c = a ∨ S.Own c lvl := by
  rcases h with rfl | ⟨hc, hb⟩
  · exact Or.inl rfl
  · right
    cases hb with
    | direct h' =>
      rw [ha] at h'
      cases h'
      exact Or.inl rfl
    | step h' _ hb' =>
      rw [ha] at h'
      cases h'
      exact Or.inr ⟨hc, hb'⟩

/-- **where `resolve` ends** -/
theorem resolve_upstream (hS : S.Valid) :
    ∀ (n : Nat) (L : Level), L ∈ S.levels → ∀ (a : Comp) (p : Port) (b : Comp) (q : Port),
      L.wiring.Conn a p b q → ∀ x p₀, S.resolve n L.name a p = some (x, p₀) → Upstream S L a x := by
  intro n
  induction n with
  | zero => intro L _ a p b q _ x p₀ h; simp [Static.resolve] at h
  | succ n ih =>
    intro L hL a p b q hc x p₀ h
    rw [Static.resolve_succ] at h
    by_cases hx : a = pseudoExternal
    · simp only [hx, beq_self_eq_true, if_true, beq_iff_eq] at h
      split at h
      · cases h
      · split at h
        · cases h
        · rename_i P hP
          split at h
          · cases h
          · rename_i LP hLP
            split at h
            · cases h
            · rename_i a' p' hsrc
              obtain ⟨hLP1, hLP2⟩ := Static.level_some hLP
              obtain ⟨hwf, hos⟩ := hS.wiring_wf LP hLP1
              have hconn := (Wiring.sourceOf_eq_some hwf hos).1 hsrc
              have hP' : alookup S.parent L.name = some LP.name := by rw [hLP2]; exact hP
              rw [← hLP2] at h
              have he : LP.wiring.Edge a' L.name := ⟨p', p, hconn⟩
              rcases ih LP hLP1 a' p' _ _ hconn x p₀ h with ⟨h1, h2⟩ | ⟨c, h1, _, h3, h4⟩ |
                  ⟨M, c1, c2, hM, h1, h2, h3, h4, h5⟩
              · exact .out LP a' L.name hLP1 h1 hP' (.single he) h2 (Or.inl rfl)
              · exact .out LP c L.name hLP1 h1 hP' (h3.snoc he) h4 (Or.inl rfl)
              · exact .out M c1 c2 hM h1 h2 h3 h4 (h5.child hS (hS.child_ne_master h2) hP')
    · simp only [beq_iff_eq, hx, if_false] at h
      have hac := (Wiring.conn_mem_components (hS.wiring_wf L hL).1 hc).1
      have hpar : alookup S.parent a = some L.name := by
        rcases hS.members L hL a hac with hp | ⟨_, hp | hp⟩
        · exact hp
        · exact absurd hp hx
        · exact absurd hp (hS.pseudo_dir L hL _ _ _ _ hc).2
      split at h
      · rename_i hsys
        have hane : a ≠ "" := hS.sys_ne_master hsys
        split at h
        · cases h
        · rename_i La hLa
          split at h
          · cases h
          · rename_i a' p' hsrc
            obtain ⟨hLa1, hLa2⟩ := Static.level_some hLa
            obtain ⟨hwf, hos⟩ := hS.wiring_wf La hLa1
            have hconn := (Wiring.sourceOf_eq_some hwf hos).1 hsrc
            rw [← hLa2] at h
            rcases ih La hLa1 a' p' _ _ hconn x p₀ h with ⟨h1, h2⟩ | ⟨c, h1, _, _, h4⟩ |
                ⟨M, c1, c2, hM, h1, h2, h3, h4, h5⟩
            · rw [hLa2] at h1
              exact .inside hpar (Or.inr ⟨hane, h2.below h1⟩)
            · rw [hLa2] at h1
              exact .inside hpar (Or.inr ⟨hane, h4.below h1⟩)
            · rw [hLa2] at h5
              rcases h5.parent_cases hpar with rfl | h5'
              · -- `c2` is `a` itself: `M` is the level `L`
                have hname : M.name = L.name := by rw [hpar] at h2; exact (Option.some.inj h2).symm
                have e1 := hS.level_of_mem hM
                have e2 := hS.level_of_mem hL
                rw [hname, e2] at e1
                cases e1
                exact .side c1 h1 hpar h3 h4
              · exact .out M c1 c2 hM h1 h2 h3 h4 h5'
      · simp only [Option.some.injEq, Prod.mk.injEq] at h
        obtain ⟨rfl, _⟩ := h
        exact .inside hpar (Or.inl rfl)

/-- **every wire of the resolved wiring is a `Feeds` pair** -/
theorem flat_wire_feeds (hS : S.Valid) (n : Nat) {x : Comp} {p : Port} {y : Comp} {q : Port}
    (h : (S.flatW n).Conn x p y q) : S.Feeds x y := by
  obtain ⟨_, hin⟩ := (S.flatW_conn hS n x p y q).1 h
  obtain ⟨lvl, L, a, p', hpy, hLv, hconn, hr⟩ := (hS.flatInputs_spec n y q _).1 hin
  obtain ⟨hL, hname⟩ := Static.level_some hLv
  subst hname
  have he : L.wiring.Edge a y := ⟨p', q, hconn⟩
  rcases resolve_upstream hS n L hL a p' y q hconn x p hr with ⟨h1, h2⟩ | ⟨c, h1, _, h3, h4⟩ |
      ⟨M, c1, c2, hM, h1, h2, h3, h4, h5⟩
  · exact ⟨L, hL, a, y, h1, hpy, .single he, h2, Or.inl rfl⟩
  · exact ⟨L, hL, c, y, h1, hpy, h3.snoc he, h4, Or.inl rfl⟩
  · exact ⟨M, hM, c1, c2, h1, h2, h3, h4, h5.child hS (hS.child_ne_master h2) hpy⟩

end

end Tickit
