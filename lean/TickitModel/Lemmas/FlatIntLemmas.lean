/-
Helper lemmas for `Props/FlatInt.lean`: the flat multi-tick system with interrupts between ticks
(`Core/FlatInt.lean`).  All declarations here live in namespace `Tickit.FlatInt`.
-/
import TickitModel.Core.FlatInt
import TickitModel.Lemmas.CallbackLemmas

set_option linter.unusedSectionVars false

namespace Tickit.FlatInt

open Tickit

variable {Val : Type} [DecidableEq Val]

/-! ### lists built by appending one element -/

theorem snoc_inj {α : Type} {a b : List α} {x y : α} (h : a ++ [x] = b ++ [y]) : a = b ∧ x = y := by
  have := List.append_inj' h rfl
  exact ⟨this.1, by simpa using this.2⟩

theorem nil_or_snoc {α : Type} (l : List α) : l = [] ∨ ∃ l' b, l = l' ++ [b] := by
  rcases List.eq_nil_or_concat l with h | ⟨l', b, h⟩
  · exact Or.inl h
  · exact Or.inr ⟨l', b, by rw [h, List.concat_eq_append]⟩

/-! ### `intWake` -/

theorem intWake_lookup (wk : Wakeups) (c : Comp) (stamp : SimTime) (c' : Comp) :
    alookup (intWake wk c stamp) c' =
      if c' = c then some (match alookup wk c with
        | some w => if w < stamp then w else stamp
        | none => stamp)
      else alookup wk c' := by
  unfold intWake
  exact addWakeup_lookup _ _ _ _

theorem intWake_lookup_ne (wk : Wakeups) {c c' : Comp} (stamp : SimTime) (h : c' ≠ c) :
    alookup (intWake wk c stamp) c' = alookup wk c' := by
  rw [intWake_lookup, if_neg h]

theorem intWake_unique {wk : Wakeups} (h : UniqueKeys wk) (c : Comp) (stamp : SimTime) :
    UniqueKeys (intWake wk c stamp) := by
  unfold intWake
  exact addWakeup_unique _ h _ _

/-- after an interrupt of `c` stamped `stamp` the component has an entry `e ≤ stamp`, not above
its previous entry; it is the stamp or the previous entry. -/
theorem intWake_self (wk : Wakeups) (c : Comp) (stamp : SimTime) :
    ∃ e, alookup (intWake wk c stamp) c = some e ∧ e ≤ stamp ∧
      (∀ w0, alookup wk c = some w0 → e ≤ w0) ∧ (e = stamp ∨ alookup wk c = some e) := by
  rw [intWake_lookup, if_pos rfl]
  cases h : alookup wk c with
  | none => exact ⟨stamp, rfl, Int.le_refl _, fun _ h' => (by cases h'), Or.inl rfl⟩
  | some w0 =>
    by_cases hlt : w0 < stamp
    · refine ⟨w0, by simp [hlt], Int.le_of_lt hlt, fun w1 h' => ?_, Or.inr rfl⟩
      cases h'; exact Int.le_refl _
    · refine ⟨stamp, by simp [hlt], Int.le_refl _, fun w1 h' => ?_, Or.inl rfl⟩
      cases h'; exact Int.not_lt.1 hlt

theorem mem_akeys_intWake {wk : Wakeups} {c : Comp} {stamp : SimTime} {c' : Comp}
    (h : c' ∈ akeys (intWake wk c stamp)) : c' = c ∨ c' ∈ akeys wk := by
  unfold intWake addWakeup at h
  exact mem_akeys_upsert.1 h

/-! ### inversion of `FlatRunI` -/

theorem inv_nil {w : Wiring} {devs : DevSeq Val} {t0 : SimTime} {n : Nat} {st : FlatSt Val}
    {times : List SimTime} (h : FlatRunI w devs t0 [] n st times) :
    n = 0 ∧ times = [t0] ∧ TickRun w (devs 0) {} t0 w.components st := by
  generalize hs : ([] : List FAct) = s at h
  cases h with
  | initial h => exact ⟨rfl, rfl, h⟩
  | tick _ _ _ => simp at hs
  | interrupt _ _ => simp at hs

theorem inv_tick {w : Wiring} {devs : DevSeq Val} {t0 : SimTime} {sc : List FAct} {n' : Nat}
    {st' : FlatSt Val} {times' : List SimTime}
    (h : FlatRunI w devs t0 (sc ++ [.tick]) n' st' times') :
    ∃ (n : Nat) (st : FlatSt Val) (times : List SimTime) (cs : List Comp) (m : SimTime),
      n' = n + 1 ∧ times' = m :: times ∧ FlatRunI w devs t0 sc n st times ∧
      firstWakeups st.wake = (cs, some m) ∧
      TickRun w (devs (n + 1)) { st with wake := delWakeups st.wake cs } m cs st' := by
  generalize hs : sc ++ [FAct.tick] = s at h
  cases h with
  | initial _ => simp at hs
  | @tick sc1 n st _ times cs m hprev hf htick =>
    obtain ⟨rfl, _⟩ := snoc_inj hs
    exact ⟨n, st, times, cs, m, rfl, rfl, hprev, hf, htick⟩
  | interrupt _ _ =>
    obtain ⟨_, h2⟩ := snoc_inj hs
    cases h2

theorem inv_interrupt {w : Wiring} {devs : DevSeq Val} {t0 : SimTime} {sc : List FAct} {n : Nat}
    {st' : FlatSt Val} {times : List SimTime} {c : Comp} {stamp : SimTime}
    (h : FlatRunI w devs t0 (sc ++ [.interrupt c stamp]) n st' times) :
    ∃ (st : FlatSt Val), st' = { st with wake := intWake st.wake c stamp } ∧
      c ∈ w.components ∧ FlatRunI w devs t0 sc n st times := by
  generalize hs : sc ++ [FAct.interrupt c stamp] = s at h
  cases h with
  | initial _ => simp at hs
  | tick _ _ _ =>
    obtain ⟨_, h2⟩ := snoc_inj hs
    cases h2
  | @interrupt sc1 _ st _ c1 stamp1 hprev hc =>
    obtain ⟨rfl, h2⟩ := snoc_inj hs
    cases h2
    exact ⟨st, rfl, hc, hprev⟩

/-! ### T0: `FlatRun` is the interrupt-free fragment -/

theorem of_flatRun {w : Wiring} {devs : DevSeq Val} {t0 : SimTime} {n : Nat} {st : FlatSt Val}
    {times : List SimTime} (h : FlatRun w devs t0 n st times) :
    FlatRunI w devs t0 (List.replicate n .tick) n st times := by
  induction h with
  | initial h => exact .initial h
  | tick _ hf htick ih =>
    rw [List.replicate_succ']
    exact .tick ih hf htick

theorem to_flatRun {w : Wiring} {devs : DevSeq Val} {t0 : SimTime} {sc : List FAct} {n : Nat}
    {st : FlatSt Val} {times : List SimTime} (h : FlatRunI w devs t0 sc n st times)
    (hsc : ∀ a ∈ sc, a = FAct.tick) :
    FlatRun w devs t0 n st times ∧ sc = List.replicate n .tick := by
  induction h with
  | initial h => exact ⟨.initial h, rfl⟩
  | tick _ hf htick ih =>
    obtain ⟨hr, hs⟩ := ih (fun a ha => hsc a (List.mem_append_left _ ha))
    refine ⟨.tick hr hf htick, ?_⟩
    rw [List.replicate_succ', ← hs]
  | @interrupt sc n st times c stamp _ _ _ =>
    have := hsc (.interrupt c stamp) (by simp)
    cases this

/-! ### basic invariants of runs and continuations -/

theorem flatRunI_uniqueKeys {w : Wiring} {devs : DevSeq Val} {t0 : SimTime} {sc : List FAct}
    {n : Nat} {st : FlatSt Val} {times : List SimTime} (h : FlatRunI w devs t0 sc n st times) :
    UniqueKeys st.wake := by
  induction h with
  | initial h => exact Det.tickRun_uniqueKeys h (by simp [UniqueKeys])
  | tick _ _ h ih => exact Det.tickRun_uniqueKeys h (delWakeups_unique _ ih _)
  | interrupt _ _ ih => exact intWake_unique ih _ _

theorem flatExtI_uniqueKeys {w : Wiring} {devs : DevSeq Val} {n n' : Nat} {st st' : FlatSt Val}
    {times times' : List SimTime} {sc : List FAct}
    (h : FlatExtI w devs n st times sc n' st' times') (huk : UniqueKeys st.wake) :
    UniqueKeys st'.wake := by
  induction h with
  | refl => exact huk
  | tick _ _ h ih => exact Det.tickRun_uniqueKeys h (delWakeups_unique _ ih _)
  | interrupt _ _ ih => exact intWake_unique ih _ _

/-- the number of ticks of the script, and the length of the list of tick times -/
theorem flatRunI_counts {w : Wiring} {devs : DevSeq Val} {t0 : SimTime} {sc : List FAct}
    {n : Nat} {st : FlatSt Val} {times : List SimTime} (h : FlatRunI w devs t0 sc n st times) :
    sc.count .tick = n ∧ times.length = n + 1 := by
  induction h with
  | initial _ => exact ⟨rfl, rfl⟩
  | tick _ _ _ ih => simp [List.count_append, ih.1, ih.2]
  | interrupt _ _ ih =>
    refine ⟨?_, ih.2⟩
    rw [List.count_append, ih.1]
    simp

/-! ### T1: the `Synced` invariant -/

/-- after every action of every run: the invariant of C03 holds and only components have
wakeups. -/
theorem runI_inv {w : Wiring} (hw : RouterOK w) {devs : DevSeq Val} {t0 : SimTime}
    {sc : List FAct} {n : Nat} {st : FlatSt Val} {times : List SimTime}
    (hrun : FlatRunI w devs t0 sc n st times) :
    Synced w st ∧ ∀ c ∈ akeys st.wake, c ∈ w.components := by
  induction hrun with
  | initial htick =>
    obtain ⟨s, hs, hf, rfl⟩ := htick
    refine ⟨Sync.synced_afterTick hw hs hf (Sync.synced_empty w), fun c hc => ?_⟩
    rcases Sync.wake_afterTick _ _ _ hc with h | ⟨d, hm, rfl⟩
    · simp [akeys] at h
    · exact Sync.extent_sub_components (fun r h => h) (hs.inv.pre.disp_ext d hm).1
  | @tick sc n st st' times cs m _ hfw htick ih =>
    obtain ⟨s, hs, hf, rfl⟩ := htick
    have hsy : Synced w { st with wake := delWakeups st.wake cs } :=
      ⟨ih.1.wired, ih.1.noExtra, ih.1.lastSub⟩
    refine ⟨Sync.synced_afterTick hw hs hf hsy, fun c hc => ?_⟩
    rcases Sync.wake_afterTick _ _ _ hc with h | ⟨d, hm, rfl⟩
    · exact ih.2 c (Sync.mem_akeys_delWakeups h)
    · exact Sync.extent_sub_components (fun r h => ih.2 r (Sync.firstWakeups_sub hfw r h))
        (hs.inv.pre.disp_ext d hm).1
  | @interrupt sc n st times c stamp _ hc ih =>
    refine ⟨⟨ih.1.wired, ih.1.noExtra, ih.1.lastSub⟩, fun c' hc' => ?_⟩
    rcases mem_akeys_intWake hc' with rfl | h
    · exact hc
    · exact ih.2 c' h

/-! ### T2: schedule independence -/

theorem loc_intWake {a b : FlatSt Val} (c : Comp) (stamp : SimTime) {c' : Comp}
    (h : (Det.loc a c').Equiv (Det.loc b c')) (hc : (Det.loc a c).Equiv (Det.loc b c)) :
    (Det.loc { a with wake := intWake a.wake c stamp } c').Equiv
      (Det.loc { b with wake := intWake b.wake c stamp } c') := by
  refine ⟨h.ins, h.outs, ?_, h.ob⟩
  show alookup (intWake a.wake c stamp) c' = alookup (intWake b.wake c stamp) c'
  have h1 : alookup a.wake c' = alookup b.wake c' := h.wk
  have h2 : alookup a.wake c = alookup b.wake c := hc.wk
  rw [intWake_lookup, intWake_lookup, h1, h2]

/-- **C08 with stimuli**, local form: two runs with the same script. -/
theorem flatRunI_loc_equiv {w : Wiring} (hw : RouterOK w) (hacyc : w.Acyclic) {devs : DevSeq Val}
    (hdev : ∀ k, DevExt (devs k)) {t0 : SimTime} {sc : List FAct} {n1 : Nat} {st1 : FlatSt Val}
    {times1 : List SimTime} (h1 : FlatRunI w devs t0 sc n1 st1 times1) :
    ∀ {n2 : Nat} {st2 : FlatSt Val} {times2 : List SimTime}, FlatRunI w devs t0 sc n2 st2 times2 →
      n1 = n2 ∧ times1 = times2 ∧ ∀ c, (Det.loc st1 c).Equiv (Det.loc st2 c) := by
  induction h1 with
  | initial hr1 =>
    intro n2 st2 times2 h2
    obtain ⟨rfl, rfl, hr2⟩ := inv_nil h2
    refine ⟨rfl, rfl, Det.tickRun_loc_equiv hw hacyc (hdev 0) (fun _ => Iff.rfl) (fun c => ?_) hr1 hr2⟩
    exact ⟨fun _ => rfl, fun _ => rfl, rfl, Det.obsEq_refl _⟩
  | @tick sc n sa sa' timesa csa ma hpa hfa hra ih =>
    intro n2 st2 times2 h2
    obtain ⟨nb, sb, timesb, csb, mb, rfl, rfl, hpb, hfb, hrb⟩ := inv_tick h2
    obtain ⟨hn, hti, hloc⟩ := ih hpb
    subst hn
    have hua := flatRunI_uniqueKeys hpa
    have hub := flatRunI_uniqueKeys hpb
    obtain ⟨hm, hcs⟩ := Det.firstWakeups_congr hua hub (fun c => (hloc c).wk) hfa hfb
    subst hm
    refine ⟨rfl, by rw [hti], Det.tickRun_loc_equiv hw hacyc (hdev (n + 1)) hcs (fun c => ?_) hra hrb⟩
    refine ⟨(hloc c).ins, (hloc c).outs, ?_, (hloc c).ob⟩
    show alookup (delWakeups sa.wake csa) c = alookup (delWakeups sb.wake csb) c
    rw [delWakeups_lookup _ hua, delWakeups_lookup _ hub]
    by_cases hc : c ∈ csa
    · rw [if_pos hc, if_pos ((hcs c).1 hc)]
    · rw [if_neg hc, if_neg (fun h => hc ((hcs c).2 h))]
      exact (hloc c).wk
  | @interrupt sc n sa timesa c stamp hpa _ ih =>
    intro n2 st2 times2 h2
    obtain ⟨sb, rfl, _, hpb⟩ := inv_interrupt h2
    obtain ⟨hn, hti, hloc⟩ := ih hpb
    exact ⟨hn, hti, fun c' => loc_intWake c stamp (hloc c') (hloc c)⟩

/-! ### T3: timely stamps, time never runs backwards -/

theorem stampsTimely_nil (times : List SimTime) : StampsTimely [] times := trivial

theorem stampsTimely_snoc_tick {sc : List FAct} {times : List SimTime} :
    StampsTimely (sc ++ [.tick]) times ↔ StampsTimely sc times.tail := by
  simp [StampsTimely, stampsTimelyRev]

theorem stampsTimely_snoc_interrupt {sc : List FAct} {times : List SimTime} {c : Comp}
    {stamp : SimTime} :
    StampsTimely (sc ++ [.interrupt c stamp]) times ↔
      (∀ tl, times.head? = some tl → tl ≤ stamp) ∧ StampsTimely sc times := by
  simp [StampsTimely, stampsTimelyRev]

/-- invariant of a run with timely stamps: every wakeup entry is at or after the latest tick. -/
theorem flatRunI_wake_ge {w : Wiring} {devs : DevSeq Val}
    (hpast : ∀ k c t ins x, ((devs k) c t ins).callAt = some x → t ≤ x)
    {t0 : SimTime} {sc : List FAct} {n : Nat} {st : FlatSt Val} {times : List SimTime}
    (hrun : FlatRunI w devs t0 sc n st times) (htimely : StampsTimely sc times) :
    ∃ tl rest, times = tl :: rest ∧ ∀ c t, alookup st.wake c = some t → tl ≤ t := by
  induction hrun with
  | initial h =>
    refine ⟨t0, [], rfl, fun c t hc => ?_⟩
    rcases Det.tickRun_wake_ge (hpast 0) h hc with h' | h'
    · simp [alookup] at h'
    · exact h'
  | @tick sc n st0 _ times0 cs m hprev hf h _ =>
    refine ⟨m, times0, rfl, fun c t hc => ?_⟩
    rcases Det.tickRun_wake_ge (hpast (n + 1)) h hc with h' | h'
    · exact Int.le_of_lt (served_then_later _ (flatRunI_uniqueKeys hprev) cs m hf c t h')
    · exact h'
  | @interrupt sc n st0 times0 c stamp hprev _ ih =>
    obtain ⟨hst, hrest⟩ := stampsTimely_snoc_interrupt.1 htimely
    obtain ⟨tl, rest, rfl, hge⟩ := ih hrest
    refine ⟨tl, rest, rfl, fun c' t hc' => ?_⟩
    have hc'' : alookup (intWake st0.wake c stamp) c' = some t := hc'
    by_cases hcc : c' = c
    · subst hcc
      obtain ⟨e, he, _, _, hor⟩ := intWake_self st0.wake c' stamp
      rw [he] at hc''
      cases hc''
      rcases hor with rfl | hold
      · exact hst tl rfl
      · exact hge c' _ hold
    · rw [intWake_lookup_ne _ _ hcc] at hc''
      exact hge c' t hc''

theorem flatRunI_time_monotone {w : Wiring} {devs : DevSeq Val}
    (hpast : ∀ k c t ins x, ((devs k) c t ins).callAt = some x → t ≤ x)
    {t0 : SimTime} {sc : List FAct} {n : Nat} {st : FlatSt Val} {times : List SimTime}
    (hrun : FlatRunI w devs t0 sc n st times) (htimely : StampsTimely sc times) :
    times.Pairwise (fun later earlier => earlier ≤ later) := by
  induction hrun with
  | initial _ => simp
  | @tick sc n st0 st1 times0 cs m hprev hf _ ih =>
    have hti : StampsTimely sc times0 := stampsTimely_snoc_tick.1 htimely
    obtain ⟨tl, rest, hti', hge⟩ := flatRunI_wake_ge hpast hprev hti
    obtain ⟨_, _, ⟨c, hc⟩, _⟩ := firstWakeups_spec _ (flatRunI_uniqueKeys hprev) cs m hf
    have htl : tl ≤ m := hge c m hc
    subst hti'
    have ih' := ih hti
    refine List.pairwise_cons.2 ⟨fun t' ht' => ?_, ih'⟩
    rcases List.mem_cons.1 ht' with rfl | ht'
    · exact htl
    · exact Int.le_trans ((List.pairwise_cons.1 ih').1 t' ht') htl
  | interrupt _ _ ih => exact ih (stampsTimely_snoc_interrupt.1 htimely).2

/-! ### continuations -/

theorem FlatExtI.flatRunI {w : Wiring} {devs : DevSeq Val} {t0 : SimTime} {n n' : Nat}
    {st st' : FlatSt Val} {times times' : List SimTime} {sc0 sc : List FAct}
    (hext : FlatExtI w devs n st times sc n' st' times')
    (hrun : FlatRunI w devs t0 sc0 n st times) :
    FlatRunI w devs t0 (sc0 ++ sc) n' st' times' := by
  induction hext with
  | refl => simpa using hrun
  | tick _ hf htick ih =>
    rw [← List.append_assoc]
    exact .tick ih hf htick
  | interrupt _ hc ih =>
    rw [← List.append_assoc]
    exact .interrupt ih hc

theorem FlatExtI.trans {w : Wiring} {devs : DevSeq Val} {n n' n'' : Nat}
    {st st' st'' : FlatSt Val} {times times' times'' : List SimTime} {sc sc' : List FAct}
    (h1 : FlatExtI w devs n st times sc n' st' times')
    (h2 : FlatExtI w devs n' st' times' sc' n'' st'' times'') :
    FlatExtI w devs n st times (sc ++ sc') n'' st'' times'' := by
  induction h2 with
  | refl => simpa using h1
  | tick _ hf htick ih =>
    rw [← List.append_assoc]
    exact .tick ih hf htick
  | interrupt _ hc ih =>
    rw [← List.append_assoc]
    exact .interrupt ih hc

/-- every run whose script has `sc0` as a prefix is a continuation of a run with script `sc0`. -/
theorem flatRunI_split {w : Wiring} {devs : DevSeq Val} {t0 : SimTime} {S : List FAct} {n' : Nat}
    {st' : FlatSt Val} {times' : List SimTime} (hrun : FlatRunI w devs t0 S n' st' times') :
    ∀ (sc0 sc : List FAct), S = sc0 ++ sc →
      ∃ n st times, FlatRunI w devs t0 sc0 n st times ∧
        FlatExtI w devs n st times sc n' st' times' := by
  induction hrun with
  | @initial st h =>
    intro sc0 sc hS
    obtain ⟨rfl, rfl⟩ := List.append_eq_nil_iff.1 hS.symm
    exact ⟨0, st, [t0], .initial h, .refl⟩
  | @tick S1 n1 st1 st2 times1 cs m hprev hf htick ih =>
    intro sc0 sc hS
    rcases nil_or_snoc sc with rfl | ⟨sc', b, rfl⟩
    · rw [List.append_nil] at hS
      subst hS
      exact ⟨_, _, _, .tick hprev hf htick, .refl⟩
    · rw [← List.append_assoc] at hS
      obtain ⟨h1, rfl⟩ := snoc_inj hS
      obtain ⟨n, st, times, hr, he⟩ := ih sc0 sc' h1
      exact ⟨n, st, times, hr, .tick he hf htick⟩
  | @interrupt S1 n1 st1 times1 c stamp hprev hc ih =>
    intro sc0 sc hS
    rcases nil_or_snoc sc with rfl | ⟨sc', b, rfl⟩
    · rw [List.append_nil] at hS
      subst hS
      exact ⟨_, _, _, .interrupt hprev hc, .refl⟩
    · rw [← List.append_assoc] at hS
      obtain ⟨h1, rfl⟩ := snoc_inj hS
      obtain ⟨n, st, times, hr, he⟩ := ih sc0 sc' h1
      exact ⟨n, st, times, hr, .interrupt he hc⟩

/-- the tick count and the tick times of a continuation extend the given ones. -/
theorem FlatExtI.times_eq {w : Wiring} {devs : DevSeq Val} {n n' : Nat}
    {st st' : FlatSt Val} {times times' : List SimTime} {sc : List FAct}
    (hext : FlatExtI w devs n st times sc n' st' times') :
    ∃ newT, times' = newT ++ times ∧ n' = n + newT.length ∧ newT.length = sc.count .tick := by
  induction hext with
  | refl => exact ⟨[], rfl, rfl, rfl⟩
  | @tick sc n' st' st'' times' cs m _ _ _ ih =>
    obtain ⟨newT, h1, h2, h3⟩ := ih
    exact ⟨m :: newT, by rw [h1]; rfl, by rw [h2]; rfl, by simp [List.count_append, h3]⟩
  | interrupt _ _ ih =>
    obtain ⟨newT, h1, h2, h3⟩ := ih
    exact ⟨newT, h1, h2, by simp [List.count_append, h3]⟩

/-! ### T4: a pending wakeup along a continuation with interrupts -/

theorem lowered_nil (c : Comp) (t : SimTime) : lowered c t [] = t := rfl

theorem lowered_snoc (c : Comp) (t : SimTime) (sc : List FAct) (a : FAct) :
    lowered c t (sc ++ [a]) = FAct.lower c (lowered c t sc) a := by
  simp [lowered, List.foldl_append]

theorem lower_le (c : Comp) (t : SimTime) (a : FAct) : FAct.lower c t a ≤ t := by
  cases a with
  | tick => exact Int.le_refl _
  | interrupt c' s =>
    simp only [FAct.lower]
    split
    · split
      · exact Int.le_refl _
      · rename_i h; exact Int.not_lt.1 h
    · exact Int.le_refl _

/-- an entry is only ever LOWERED by interrupts … -/
theorem lowered_le (c : Comp) (t : SimTime) (sc : List FAct) : lowered c t sc ≤ t := by
  induction sc generalizing t with
  | nil => exact Int.le_refl _
  | cons a sc ih => exact Int.le_trans (ih (FAct.lower c t a)) (lower_le c t a)

/-- … further actions lower it further … -/
theorem lowered_append_le (c : Comp) (t : SimTime) (sc sc' : List FAct) :
    lowered c t (sc ++ sc') ≤ lowered c t sc := by
  have : lowered c t (sc ++ sc') = lowered c (lowered c t sc) sc' := by
    simp [lowered, List.foldl_append]
  rw [this]
  exact lowered_le _ _ _

/-- … by interrupts of the SAME component only, … -/
theorem lowered_eq_of_no_interrupt (c : Comp) (t : SimTime) (sc : List FAct)
    (h : ∀ s, FAct.interrupt c s ∉ sc) : lowered c t sc = t := by
  induction sc generalizing t with
  | nil => rfl
  | cons a sc ih =>
    have ha : FAct.lower c t a = t := by
      cases a with
      | tick => rfl
      | interrupt c' s =>
        simp only [FAct.lower]
        split
        · rename_i hc; subst hc; exact absurd (List.mem_cons_self) (h s)
        · rfl
    show lowered c (FAct.lower c t a) sc = t
    rw [ha]
    exact ih t (fun s hs => h s (List.mem_cons_of_mem _ hs))

/-- … and the result is the old entry or the stamp of one of these interrupts. -/
theorem lowered_cases (c : Comp) (t : SimTime) (sc : List FAct) :
    lowered c t sc = t ∨ FAct.interrupt c (lowered c t sc) ∈ sc := by
  induction sc generalizing t with
  | nil => exact Or.inl rfl
  | cons a sc ih =>
    show lowered c (FAct.lower c t a) sc = t ∨ FAct.interrupt c (lowered c (FAct.lower c t a) sc) ∈ a :: sc
    rcases ih (FAct.lower c t a) with h | h
    · rw [h]
      cases a with
      | tick => exact Or.inl rfl
      | interrupt c' s =>
        simp only [FAct.lower]
        split
        · rename_i hc
          subst hc
          split
          · exact Or.inl rfl
          · exact Or.inr List.mem_cons_self
        · exact Or.inl rfl
    · exact Or.inr (List.mem_cons_of_mem _ h)

theorem not_bothI {w : Wiring} {devs : DevSeq Val} {n n' : Nat} {st st' : FlatSt Val}
    {times times' : List SimTime} {sc : List FAct} {c : Comp} {t : SimTime}
    (h1 : StillPendingI st times sc st' times' c t)
    (h2 : FirstUpdateI w devs n st times sc n' st' times' c t) : False := by
  obtain ⟨_, _, _, _, _, _, _, _, _, rest, _, _, _, _, _, _, _, _, _, hob⟩ := h2
  have := congrArg List.length (h1.no_new_obs.symm.trans hob)
  simp at this

/-- **R1 with interrupts.**  A wakeup of `c` pending at a state whose wakeups form a dict: in
every continuation it is still pending (possibly lowered) or `c` has been updated, first by a tick
not later than the entry then pending. -/
theorem pending_or_servedI {w : Wiring} (hw : RouterOK w) {devs : DevSeq Val}
    {n n' : Nat} {st st' : FlatSt Val} {times times' : List SimTime} {sc : List FAct}
    (huk : UniqueKeys st.wake) {c : Comp} {t : SimTime}
    (hc : alookup st.wake c = some t) (hext : FlatExtI w devs n st times sc n' st' times') :
    StillPendingI st times sc st' times' c t ∨
      FirstUpdateI w devs n st times sc n' st' times' c t := by
  induction hext with
  | refl => exact Or.inl ⟨rfl, hc, [], rfl, by simp⟩
  | @tick sc n' st' st'' times' cs m hpre hf htick ih =>
    have huk' := flatExtI_uniqueKeys hpre huk
    rcases ih with hp | ⟨scA, scB, k, stA, stB, timesA, cs1, t1, given, rest, hsc, hA, hpA, hfA,
      htA, hB, hle, hroot, hobB, hob'⟩
    · obtain ⟨hmt, hiff, hcase⟩ := Callback.step_cases hw huk' hf htick hp.pending
      rcases hcase with ⟨hlt, hob, hwk⟩ | ⟨given, hob⟩
      · left
        obtain ⟨newT, hti, hall⟩ := hp.earlier
        refine ⟨hob.trans hp.no_new_obs, ?_, m :: newT, by rw [hti]; rfl, ?_⟩
        · rw [lowered_snoc]; exact hwk
        · intro x hx
          rcases List.mem_cons.1 hx with rfl | hx
          · exact Int.lt_of_lt_of_le hlt (lowered_le c t sc)
          · exact hall x hx
      · right
        exact ⟨sc, [], n', st', st'', times', cs, m, given, [], rfl, hpre, hp, hf, htick, .refl,
          hmt, hiff, by rw [hob, hp.no_new_obs], by rw [hob, hp.no_new_obs]⟩
    · right
      have : ∃ rest', st''.obsOf c = st.obsOf c ++ (t1, given) :: rest' := by
        rcases Callback.tickRun_cases htick c with ⟨ho, _⟩ | ⟨g, ho, _⟩
        · exact ⟨rest, ho.trans hob'⟩
        · refine ⟨rest ++ [(m, g)], ?_⟩
          rw [ho]
          show st'.obsOf c ++ _ = _
          rw [hob']
          simp
      obtain ⟨rest', hr'⟩ := this
      exact ⟨scA, scB ++ [.tick], k, stA, stB, timesA, cs1, t1, given, rest', by rw [hsc]; simp,
        hA, hpA, hfA, htA, hB.tick hf htick, hle, hroot, hobB, hr'⟩
  | @interrupt sc n' st' times' c' stamp hpre hc' ih =>
    rcases ih with hp | ⟨scA, scB, k, stA, stB, timesA, cs1, t1, given, rest, hsc, hA, hpA, hfA,
      htA, hB, hle, hroot, hobB, hob'⟩
    · left
      refine ⟨hp.no_new_obs, ?_, hp.earlier⟩
      show alookup (intWake st'.wake c' stamp) c = _
      rw [lowered_snoc, intWake_lookup]
      simp only [FAct.lower]
      by_cases hcc : c = c'
      · subst hcc
        rw [if_pos rfl, if_pos rfl, hp.pending]
      · rw [if_neg hcc, if_neg (fun h => hcc h.symm), hp.pending]
    · right
      exact ⟨scA, scB ++ [.interrupt c' stamp], k, stA, stB, timesA, cs1, t1, given, rest,
        by rw [hsc]; simp, hA, hpA, hfA, htA, hB.interrupt hc', hle, hroot, hobB, hob'⟩

/-! ### T5: where wakeup entries and tick times come from -/

/-- the entry `(c, x)` was requested by an update of `c` (in tick `k ≤ n`, at that tick's time,
with the inputs logged there) or is the stamp of an interrupt of `c` in the script. -/
def Prov (devs : DevSeq Val) (n : Nat) (times : List SimTime)
    (obsC : List (SimTime × List (Port × Val))) (sc : List FAct) (c : Comp) (x : SimTime) : Prop :=
  (∃ (k : Nat) (t_req : SimTime) (ins : List (Port × Val)),
    k ≤ n ∧ times[n - k]? = some t_req ∧ (t_req, ins) ∈ obsC ∧
    ((devs k) c t_req ins).callAt = some x) ∨ FAct.interrupt c x ∈ sc

theorem Prov.mono {devs : DevSeq Val} {n : Nat} {times : List SimTime}
    {obsC obsC' : List (SimTime × List (Port × Val))} {sc sc' : List FAct} {c : Comp} {x : SimTime}
    (h : Prov devs n times obsC sc c x) (ho : ∀ o ∈ obsC, o ∈ obsC') (hs : ∀ a ∈ sc, a ∈ sc') :
    Prov devs n times obsC' sc' c x := by
  rcases h with ⟨k, t_req, ins, h1, h2, h3, h4⟩ | h
  · exact Or.inl ⟨k, t_req, ins, h1, h2, ho _ h3, h4⟩
  · exact Or.inr (hs _ h)

theorem Prov.shift {devs : DevSeq Val} {n : Nat} {times : List SimTime}
    {obsC : List (SimTime × List (Port × Val))} {sc : List FAct} {c : Comp} {x : SimTime}
    (h : Prov devs n times obsC sc c x) (m : SimTime) :
    Prov devs (n + 1) (m :: times) obsC sc c x := by
  rcases h with ⟨k, t_req, ins, h1, h2, h3, h4⟩ | h
  · refine Or.inl ⟨k, t_req, ins, by omega, ?_, h3, h4⟩
    have : n + 1 - k = (n - k) + 1 := by omega
    rw [this, List.getElem?_cons_succ]
    exact h2
  · exact Or.inr h

/-- a tick only appends to the observation sequence of a component -/
theorem obsOf_mono_tick {w : Wiring} {dev : DevFn Val} {st0 st' : FlatSt Val} {m : SimTime}
    {roots : List Comp} (h : TickRun w dev st0 m roots st') (c : Comp)
    (o : SimTime × List (Port × Val)) (ho : o ∈ st0.obsOf c) : o ∈ st'.obsOf c := by
  rcases Callback.tickRun_cases h c with ⟨hob, _⟩ | ⟨g, hob, _⟩
  · rw [hob]; exact ho
  · rw [hob]; exact List.mem_append_left _ ho

/-- every wakeup entry of every state of a run was requested by its device or is the stamp of an
interrupt of that component. -/
theorem wake_prov {w : Wiring} {devs : DevSeq Val} {t0 : SimTime} {sc : List FAct} {n : Nat}
    {st : FlatSt Val} {times : List SimTime} (hrun : FlatRunI w devs t0 sc n st times) (c : Comp)
    (x : SimTime) (hx : alookup st.wake c = some x) :
    Prov devs n times (st.obsOf c) sc c x := by
  induction hrun generalizing x with
  | @initial st htick =>
    rcases Callback.tickRun_cases htick c with ⟨_, hwk⟩ | ⟨g, hob, hwk⟩
    · rw [hwk] at hx
      simp [alookup] at hx
    · rw [hwk] at hx
      cases hcall : ((devs 0) c t0 g).callAt with
      | none =>
        rw [hcall] at hx
        simp [alookup] at hx
      | some x' =>
        rw [hcall] at hx
        cases hx
        exact Or.inl ⟨0, t0, g, Nat.le_refl _, by simp, by rw [hob]; simp, hcall⟩
  | @tick sc n st st' times cs m hprev hf htick ih =>
    have huk := flatRunI_uniqueKeys hprev
    have hold : ∀ y, alookup (delWakeups st.wake cs) c = some y → alookup st.wake c = some y := by
      intro y hy
      rw [delWakeups_lookup _ huk] at hy
      split at hy
      · cases hy
      · exact hy
    have hlift : ∀ y, alookup (delWakeups st.wake cs) c = some y →
        Prov devs (n + 1) (m :: times) (st'.obsOf c) (sc ++ [.tick]) c y := fun y hy =>
      ((ih y (hold y hy)).shift m).mono (obsOf_mono_tick htick c)
        (fun a ha => List.mem_append_left _ ha)
    rcases Callback.tickRun_cases htick c with ⟨hob, hwk⟩ | ⟨g, hob, hwk⟩
    · rw [hwk] at hx
      exact hlift x hx
    · rw [hwk] at hx
      cases hcall : ((devs (n + 1)) c m g).callAt with
      | none =>
        rw [hcall] at hx
        exact hlift x hx
      | some x' =>
        rw [hcall] at hx
        cases hx
        exact Or.inl ⟨n + 1, m, g, Nat.le_refl _, by simp, by rw [hob]; simp, hcall⟩
  | @interrupt sc n st times c' stamp hprev _ ih =>
    have hx' : alookup (intWake st.wake c' stamp) c = some x := hx
    have hlift : ∀ y, alookup st.wake c = some y →
        Prov devs n times (st.obsOf c) (sc ++ [.interrupt c' stamp]) c y := fun y hy =>
      (ih y hy).mono (fun _ h => h) (fun a ha => List.mem_append_left _ ha)
    by_cases hcc : c = c'
    · subst hcc
      obtain ⟨e, he, _, _, hor⟩ := intWake_self st.wake c stamp
      rw [he] at hx'
      cases hx'
      rcases hor with rfl | hold
      · exact Or.inr (by simp)
      · exact hlift _ hold
    · rw [intWake_lookup_ne _ _ hcc] at hx'
      exact hlift x hx'

/-- provenance of a tick time -/
def TickProv (devs : DevSeq Val) (t0 : SimTime) (n : Nat) (times : List SimTime)
    (st : FlatSt Val) (sc : List FAct) (m : SimTime) : Prop :=
  m = t0 ∨ ∃ c, Prov devs n times (st.obsOf c) sc c m

theorem tick_prov {w : Wiring} {devs : DevSeq Val} {t0 : SimTime} {sc : List FAct} {n : Nat}
    {st : FlatSt Val} {times : List SimTime} (hrun : FlatRunI w devs t0 sc n st times) :
    ∀ m ∈ times, TickProv devs t0 n times st sc m := by
  induction hrun with
  | initial _ =>
    intro m hm
    exact Or.inl (by simpa using hm)
  | @tick sc n st st' times cs m hprev hf htick ih =>
    have hlift : ∀ c y, Prov devs n times (st.obsOf c) sc c y →
        Prov devs (n + 1) (m :: times) (st'.obsOf c) (sc ++ [.tick]) c y := fun c y h =>
      (h.shift m).mono (obsOf_mono_tick htick c) (fun a ha => List.mem_append_left _ ha)
    intro m' hm'
    rcases List.mem_cons.1 hm' with rfl | hm'
    · obtain ⟨_, _, ⟨c, hc⟩, _⟩ := firstWakeups_spec _ (flatRunI_uniqueKeys hprev) cs m' hf
      exact Or.inr ⟨c, hlift c m' (wake_prov hprev c m' hc)⟩
    · rcases ih m' hm' with h | ⟨c, h⟩
      · exact Or.inl h
      · exact Or.inr ⟨c, hlift c m' h⟩
  | @interrupt sc n st times c' stamp hprev _ ih =>
    intro m hm
    rcases ih m hm with h | ⟨c, h⟩
    · exact Or.inl h
    · exact Or.inr ⟨c, h.mono (fun _ h => h) (fun a ha => List.mem_append_left _ ha)⟩

end Tickit.FlatInt
