/-
Helper lemmas for C12 at run level (`Props/C12Run.lean`): pacing of the whole-simulation master
loop `masterRun` against real time.

* `Run` — the branches of `masterRun` as an inductive relation, with the log of the stimuli it
  handles (`masterRun_run`: every successful `masterRun` is such a `Run`);
* `Link` — how the real time of a tick record follows from the previous record (`dueReal`);
* list lemmas (`Consec`, telescoping) and the arithmetic of one link.

Core Lean only.
-/
import TickitModel.Lemmas.TimeMonoLemmas
import TickitModel.Lemmas.MiscArith

namespace Tickit
namespace Pacing

open TimeMono

/-! ## the run as a relation -/

/-- a stimulus handled by the master loop: the master state `m` in which it was handled, the
stimulus, and the number `k` of tick records written so far (so the next tick record, if any,
is `ticks[k]`, and `ticks[k-1]` is the last tick before the stimulus). -/
structure StimEv where
  m : MasterSt
  st : Stim
  k : Nat

/-- real time at which the stimulus is handled (`masterRun`: `now := max st.real m.now`) -/
def StimEv.now (ev : StimEv) : Int := if ev.st.real < ev.m.now then ev.m.now else ev.st.real

/-- the simulation time stamped on the interrupt (`masterRun`: `stamp`) -/
def StimEv.stamp (sp : Speed) (ev : StimEv) : SimTime :=
  interruptStamp ev.m.tickerTime ev.now ev.m.lastReal sp

/-- the top-level component that the master sees interrupting: the component itself or the
outermost system component containing it (`masterRun`: `top`) -/
def StimEv.top (S : Static) (fuel : Nat) (ev : StimEv) : Comp :=
  (raiseInterrupt S fuel ev.st.comp ev.m.sim).2

/-- the wakeup time written for `top`: the stamp, unless an earlier wakeup of `top` is still
pending, which is kept (`masterRun`: `when`) -/
def StimEv.when (S : Static) (fuel : Nat) (sp : Speed) (ev : StimEv) : SimTime :=
  stimWhen (ev.m.sim.sched "").wake (ev.top S fuel) (ev.stamp sp)

/-- `Run S orc fuel sp m stims acc m2 ticks log`: started in master state `m` with pending stimuli
`stims` and tick records `acc`, the master loop stops in `m2` with tick records `ticks`, having
handled the stimuli recorded in `log` (in this order).  The three constructors are the branches of
`masterRun` (see `masterRun_unfold`): stop; handle the first stimulus (`stimStep`); run the tick
of the first wakeups at real time `dueReal m sp w`. -/
inductive Run (S : Static) (orc : Oracle) (fuel : Nat) (sp : Speed) :
    MasterSt → List Stim → List TickRec → MasterSt → List TickRec → List StimEv → Prop
  | stop (m : MasterSt) (stims : List Stim) (acc : List TickRec) :
      Run S orc fuel sp m stims acc m acc []
  | stim {m : MasterSt} {stims : List Stim} {acc : List TickRec} {st : Stim} {rest : List Stim}
      {m2 : MasterSt} {ticks : List TickRec} {log : List StimEv}
      (hsel : stimSel m sp (firstWakeups (m.sim.sched "").wake).2 stims = some (st, rest))
      (hrun : Run S orc fuel sp (stimStep S fuel sp m st) rest acc m2 ticks log) :
      Run S orc fuel sp m stims acc m2 ticks (⟨m, st, acc.length⟩ :: log)
  | tick {m : MasterSt} {stims : List Stim} {acc : List TickRec} {comps : List Comp} {w : SimTime}
      {sim2 : SimSt} {out : List (Port × V)}
      {m2 : MasterSt} {ticks : List TickRec} {log : List StimEv}
      (hsel : stimSel m sp (firstWakeups (m.sim.sched "").wake).2 stims = none)
      (hfw : firstWakeups (m.sim.sched "").wake = (comps, some w))
      (htick : tickLevel S orc fuel "" w comps [] (delMaster m.sim comps) = .ok (sim2, out))
      (hrun : Run S orc fuel sp
        { sim := sim2, tickerTime := w, lastReal := dueReal m sp w, now := dueReal m sp w } stims
        (acc ++ [⟨w, dueReal m sp w, comps⟩]) m2 ticks log) :
      Run S orc fuel sp m stims acc m2 ticks log

/-- the log of handled stimuli, computed alongside `masterRun` (`k`: number of tick records
written so far) -/
def runLog (S : Static) (orc : Oracle) (fuel : Nat) (sp : Speed) :
    Nat → Nat → MasterSt → List Stim → Nat → List StimEv
  | 0, _, _, _, _ => []
  | steps + 1, nTicks, m, stims, k =>
    match nTicks with
    | 0 => []
    | nTicks + 1 =>
      match stimSel m sp (firstWakeups (m.sim.sched "").wake).2 stims with
      | some (st, rest) =>
        ⟨m, st, k⟩ :: runLog S orc fuel sp steps (nTicks + 1) (stimStep S fuel sp m st) rest k
      | none =>
        match firstWakeups (m.sim.sched "").wake with
        | (comps, some w) =>
          match tickLevel S orc fuel "" w comps [] (delMaster m.sim comps) with
          | .error _ => []
          | .ok (sim2, _) =>
            runLog S orc fuel sp steps nTicks
              { sim := sim2, tickerTime := w, lastReal := dueReal m sp w, now := dueReal m sp w }
              stims (k + 1)
        | (_, none) => []

/-- every successful `masterRun` is a `Run`, with the log `runLog`. -/
theorem masterRun_runLog (S : Static) (orc : Oracle) (fuel : Nat) (sp : Speed) :
    ∀ (steps nTicks : Nat) (m : MasterSt) (stims : List Stim) (acc : List TickRec)
      (m2 : MasterSt) (ticks : List TickRec),
      masterRun S orc fuel sp steps nTicks m stims acc = .ok (m2, ticks) →
      Run S orc fuel sp m stims acc m2 ticks (runLog S orc fuel sp steps nTicks m stims acc.length) := by
  intro steps
  induction steps with
  | zero =>
    intro nTicks m stims acc m2 ticks h
    rw [masterRun] at h
    simp only [Except.ok.injEq, Prod.mk.injEq] at h
    obtain ⟨rfl, rfl⟩ := h
    exact Run.stop _ _ _
  | succ steps ih =>
    intro nTicks m stims acc m2 ticks h
    cases nTicks with
    | zero =>
      rw [masterRun.eq_2 _ _ _ _ _ _ _ _ (by simp)] at h
      simp only [Except.ok.injEq, Prod.mk.injEq] at h
      obtain ⟨rfl, rfl⟩ := h
      exact Run.stop _ _ _
    | succ nTicks =>
      rw [masterRun_unfold] at h
      rw [runLog]
      split at h
      · rename_i st rest hsel
        rw [hsel]
        exact Run.stim hsel (ih _ _ _ _ _ _ h)
      · rename_i hsel
        rw [hsel]
        simp only []
        split at h
        · rename_i comps w hfw
          rw [hfw]
          simp only []
          split at h
          · cases h
          · rename_i sim2 out hr
            rw [hr]
            have := ih _ _ _ _ _ _ h
            simp only [List.length_append, List.length_singleton] at this
            exact Run.tick hsel hfw hr this
        · simp only [Except.ok.injEq, Prod.mk.injEq] at h
          obtain ⟨rfl, rfl⟩ := h
          rename_i hnone
          rw [hnone]
          exact Run.stop _ _ _

theorem masterRun_run (S : Static) (orc : Oracle) (fuel : Nat) (sp : Speed)
    (steps nTicks : Nat) (m : MasterSt) (stims : List Stim) (acc : List TickRec)
    (m2 : MasterSt) (ticks : List TickRec)
    (h : masterRun S orc fuel sp steps nTicks m stims acc = .ok (m2, ticks)) :
    ∃ log, Run S orc fuel sp m stims acc m2 ticks log :=
  ⟨_, masterRun_runLog S orc fuel sp steps nTicks m stims acc m2 ticks h⟩

theorem Run.prefix {S : Static} {orc : Oracle} {fuel : Nat} {sp : Speed} {m : MasterSt}
    {stims : List Stim} {acc : List TickRec} {m2 : MasterSt} {ticks : List TickRec}
    {log : List StimEv} (h : Run S orc fuel sp m stims acc m2 ticks log) :
    ∃ tail, ticks = acc ++ tail := by
  induction h with
  | stop => exact ⟨[], by simp⟩
  | stim _ _ ih => exact ih
  | tick _ _ _ _ ih =>
    obtain ⟨t, ht⟩ := ih
    exact ⟨[_] ++ t, by rw [ht, List.append_assoc]⟩

/-- the handled stimuli are an initial segment of the given ones, in order -/
theorem Run.log_stims {S : Static} {orc : Oracle} {fuel : Nat} {sp : Speed} {m : MasterSt}
    {stims : List Stim} {acc : List TickRec} {m2 : MasterSt} {ticks : List TickRec}
    {log : List StimEv} (h : Run S orc fuel sp m stims acc m2 ticks log) :
    ∃ rest, stims = log.map (·.st) ++ rest := by
  induction h with
  | stop m stims acc => exact ⟨stims, by simp⟩
  | stim hsel _ ih =>
    obtain ⟨r, hr⟩ := ih
    exact ⟨r, by rw [stimSel_mem hsel, hr]; simp⟩
  | tick _ _ _ _ ih => exact ih

/-! ## lists of tick records -/

/-- `R` holds between every two consecutive records of `l` -/
def Consec (R : TickRec → TickRec → Prop) (l : List TickRec) : Prop :=
  ∀ (i : Nat) (a b : TickRec), l[i]? = some a → l[i + 1]? = some b → R a b

theorem consec_single (R : TickRec → TickRec → Prop) (x : TickRec) : Consec R [x] := by
  intro i a b _ hb
  simp at hb

theorem consec_snoc {R : TickRec → TickRec → Prop} {l : List TickRec} {x : TickRec}
    (h : Consec R l) (hx : ∀ z, l.getLast? = some z → R z x) : Consec R (l ++ [x]) := by
  intro i a b ha hb
  by_cases hlt : i + 1 < l.length
  · rw [List.getElem?_append_left (by omega)] at ha
    rw [List.getElem?_append_left hlt] at hb
    exact h i a b ha hb
  · have hlen : i + 1 < (l ++ [x]).length := (List.getElem?_eq_some_iff.1 hb).1
    simp only [List.length_append, List.length_singleton] at hlen
    have hil : i + 1 = l.length := by omega
    rw [List.getElem?_append_left (by omega)] at ha
    rw [List.getElem?_append_right (by omega)] at hb
    have hb' : x = b := by
      have : i + 1 - l.length = 0 := by omega
      rw [this] at hb
      simpa using hb
    subst hb'
    apply hx
    rw [List.getLast?_eq_getElem?]
    have : l.length - 1 = i := by omega
    rw [this]
    exact ha

/-- telescoping along consecutive records -/
theorem telescope (l : List TickRec) (f : TickRec → Int) (c : Int)
    (h : Consec (fun a b => f b ≤ f a + c) l) :
    ∀ (k : Nat) (x0 x : TickRec), l[0]? = some x0 → l[k]? = some x → f x ≤ f x0 + (k : Int) * c := by
  intro k
  induction k with
  | zero =>
    intro x0 x h0 hk
    rw [h0] at hk
    cases hk
    simp
  | succ k ih =>
    intro x0 x h0 hk
    have hlen : k + 1 < l.length := (List.getElem?_eq_some_iff.1 hk).1
    have hy : l[k]? = some l[k] := List.getElem?_eq_getElem (by omega)
    have h1 := ih x0 _ h0 hy
    have h2 := h k _ _ hy hk
    have e : ((k + 1 : Nat) : Int) * c = (k : Int) * c + c := by
      rw [Int.natCast_succ, Int.add_mul, Int.one_mul]
    rw [e]
    omega

theorem consec_mono {R R' : TickRec → TickRec → Prop} {l : List TickRec}
    (h : Consec R l) (hi : ∀ (i : Nat) a b, l[i]? = some a → l[i + 1]? = some b → R a b → R' a b) :
    Consec R' l :=
  fun i a b ha hb => hi i a b ha hb (h i a b ha hb)

/-- non-decreasing tick times, between neighbours -/
theorem pairwise_consec (l : List TickRec) (h : (l.map (·.time)).Pairwise (· ≤ ·)) :
    Consec (fun a b => a.time ≤ b.time) l := by
  intro i a b ha hb
  obtain ⟨h1, rfl⟩ := List.getElem?_eq_some_iff.1 ha
  obtain ⟨h2, rfl⟩ := List.getElem?_eq_some_iff.1 hb
  have := (List.pairwise_iff_getElem.1 h) i (i + 1) (by simpa using h1) (by simpa using h2)
    (by omega)
  simpa using this

/-! ## one link: the real time of a tick from the previous record -/

/-- record `b` follows record `a`: the tick for `b.time` was started at
`dueReal ⟨a.time, a.real, N⟩ sp b.time`, where `N ≥ a.real` is the real time reached meanwhile
(stimuli move it forward); with callbacks only (`cb`) nothing happens in between: `N = a.real`. -/
def Link (sp : Speed) (cb : Prop) (a b : TickRec) : Prop :=
  ∃ N : Int, a.real ≤ N ∧ (cb → N = a.real) ∧
    b.real = dueReal { tickerTime := a.time, lastReal := a.real, now := N } sp b.time

theorem Link.never_early {sp : Speed} {cb : Prop} {a b : TickRec} (hs : 0 < sp.num)
    (h : Link sp cb a b) :
    a.real ≤ b.real ∧ (b.time - a.time) * sp.den ≤ (b.real - a.real) * sp.num := by
  obtain ⟨N, h1, _, h3⟩ := h
  have := never_early' { tickerTime := a.time, lastReal := a.real, now := N } sp hs b.time
  rw [← h3] at this
  exact ⟨Int.le_trans h1 this.1, this.2⟩

/-- with callbacks only and time not going back, a tick is late by less than one nanosecond
of real time: `< sp.num` in units of `1/sp.num` ns. -/
theorem Link.lag {sp : Speed} {cb : Prop} {a b : TickRec} (hs : 0 < sp.num) (hcb : cb)
    (h : Link sp cb a b) (hm : a.time ≤ b.time) :
    (b.real - a.real) * sp.num ≤ (b.time - a.time) * sp.den + (sp.num - 1) := by
  obtain ⟨N, _, h2, h3⟩ := h
  have hN : N = a.real := h2 hcb
  subst hN
  have hn : (0 : Int) < sp.num := by omega
  rw [dueReal_eq, sleepNumer_eq] at h3
  simp only [Int.sub_self, Int.zero_mul, Int.sub_zero] at h3
  have hpos : 0 ≤ (b.time - a.time) * (sp.den : Int) :=
    Int.mul_nonneg (by simp only [SimTime] at *; omega) (by omega)
  generalize (b.time - a.time) * (sp.den : Int) = X at *
  simp only [SimTime] at *
  split at h3
  · rw [h3, Int.sub_self, Int.zero_mul]; omega
  · have h4 := ceilDiv_mul_lt X sp.num hn
    have e : (b.real - a.real) * (sp.num : Int) = ceilDiv X sp.num * sp.num := by
      congr 1; omega
    rw [e]; omega

/-- ... and exactly on time when the wait is a whole number of nanoseconds. -/
theorem Link.exact {sp : Speed} {cb : Prop} {a b : TickRec} (hcb : cb)
    (h : Link sp cb a b) (hm : a.time ≤ b.time)
    (hdiv : (sp.num : Int) ∣ (b.time - a.time) * sp.den) :
    (b.real - a.real) * sp.num = (b.time - a.time) * sp.den := by
  obtain ⟨N, _, h2, h3⟩ := h
  have hN : N = a.real := h2 hcb
  subst hN
  rw [dueReal_eq, sleepNumer_eq] at h3
  simp only [Int.sub_self, Int.zero_mul, Int.sub_zero] at h3
  have hpos : 0 ≤ (b.time - a.time) * (sp.den : Int) :=
    Int.mul_nonneg (by simp only [SimTime] at *; omega) (by omega)
  generalize (b.time - a.time) * (sp.den : Int) = X at *
  simp only [SimTime] at *
  split at h3
  · rw [h3, Int.sub_self, Int.zero_mul]; omega
  · have h4 := ceilDiv_mul_eq X sp.num hdiv
    have e : (b.real - a.real) * (sp.num : Int) = ceilDiv X sp.num * sp.num := by
      congr 1; omega
    rw [e]; omega

/-! ## the records of a run are linked -/

theorem Run.links {S : Static} {orc : Oracle} {fuel : Nat} {sp : Speed} {cb : Prop} {m : MasterSt}
    {stims : List Stim} {acc : List TickRec} {m2 : MasterSt} {ticks : List TickRec}
    {log : List StimEv} (h : Run S orc fuel sp m stims acc m2 ticks log) :
    ∀ z, acc.getLast? = some z → z.time = m.tickerTime → z.real = m.lastReal →
      m.lastReal ≤ m.now → (cb → stims = [] ∧ m.now = m.lastReal) →
      Consec (Link sp cb) acc → Consec (Link sp cb) ticks := by
  induction h with
  | stop => intro z _ _ _ _ _ hc; exact hc
  | @stim m stims acc st rest m2 ticks log hsel _ ih =>
    intro z hz hzt hzr hLN hcb hc
    refine ih z hz hzt hzr ?_ ?_ hc
    · show m.lastReal ≤ (if st.real < m.now then m.now else st.real)
      split <;> omega
    · intro hc'
      have := (hcb hc').1
      rw [stimSel_mem hsel] at this
      cases this
  | @tick m stims acc comps w sim2 out m2 ticks log hsel hfw htick _ ih =>
    intro z hz hzt hzr hLN hcb hc
    refine ih ⟨w, dueReal m sp w, comps⟩ (by simp) rfl rfl (Int.le_refl _)
      (fun hc' => ⟨(hcb hc').1, rfl⟩) ?_
    refine consec_snoc hc ?_
    intro z' hz'
    rw [hz] at hz'
    cases hz'
    refine ⟨m.now, by omega, fun hc' => by rw [(hcb hc').2, hzr], ?_⟩
    show dueReal m sp w = dueReal { tickerTime := z.time, lastReal := z.real, now := m.now } sp w
    rw [hzt, hzr]
    rfl

/-! ## stimuli -/

theorem upsert_self_mem {κ β : Type} [DecidableEq κ] (m : List (κ × β)) (k : κ) (v : β) :
    (k, v) ∈ upsert m k v := by
  induction m with
  | nil => simp [upsert]
  | cons a t ih =>
    obtain ⟨a, w⟩ := a
    simp only [upsert]
    split
    · rename_i hak; subst hak; exact List.mem_cons_self
    · exact List.mem_cons_of_mem _ ih

/-- an entry survives `upsert` unless it is the one `alookup` finds for that key -/
theorem upsert_keeps {κ β : Type} [DecidableEq κ] (m : List (κ × β)) (k : κ) (v : β) (e : κ × β)
    (h : e ∈ m) : e ∈ upsert m k v ∨ (e.1 = k ∧ alookup m k = some e.2) := by
  induction m with
  | nil => cases h
  | cons a t ih =>
    obtain ⟨a, w⟩ := a
    simp only [upsert, alookup]
    split
    · rename_i hak
      rcases List.mem_cons.1 h with h | h
      · right; rw [h]; exact ⟨hak, rfl⟩
      · left; exact List.mem_cons_of_mem _ h
    · rcases List.mem_cons.1 h with h | h
      · left; rw [h]; exact List.mem_cons_self
      · rcases ih h with h | h
        · left; exact List.mem_cons_of_mem _ h
        · right; exact h

theorem stimWhen_le_stamp (wake : Wakeups) (top : Comp) (stamp : SimTime) :
    stimWhen wake top stamp ≤ stamp := by
  unfold stimWhen
  split
  · split
    · rename_i h; exact Int.le_of_lt h
    · exact Int.le_refl _
  · exact Int.le_refl _

theorem stimWhen_le_old (wake : Wakeups) (top : Comp) (stamp w0 : SimTime)
    (h : alookup wake top = some w0) : stimWhen wake top stamp ≤ w0 := by
  unfold stimWhen
  rw [h]
  simp only []
  split
  · exact Int.le_refl _
  · rename_i h; exact Int.not_lt.1 h

/-- the master's wakeups after a stimulus: the interrupting top-level component gets
`stimWhen … stamp`; nothing else changes. -/
theorem stimStep_wake (S : Static) (fuel : Nat) (sp : Speed) (m : MasterSt) (st : Stim) :
    ((stimStep S fuel sp m st).sim.sched "").wake =
      addWakeup (m.sim.sched "").wake (raiseInterrupt S fuel st.comp m.sim).2
        (stimWhen (m.sim.sched "").wake (raiseInterrupt S fuel st.comp m.sim).2
          (interruptStamp m.tickerTime (if st.real < m.now then m.now else st.real) m.lastReal sp)) := by
  obtain ⟨_, _, hwake⟩ := raiseInterrupt_frame S fuel st.comp m.sim
  unfold stimStep
  simp only []
  rw [SimSt.sched_upsert, if_pos rfl]
  simp only []
  rw [hwake ""]

theorem firstWakeups_some_of_mem (wake : Wakeups) (e : Comp × SimTime) (he : e ∈ wake) :
    ∃ w, (firstWakeups wake).2 = some w ∧ w ≤ e.2 := by
  cases hf : (firstWakeups wake).2 with
  | none =>
    rw [firstWakeups_snd, minTime_eq_none] at hf
    have : e.2 ∈ wake.map (·.2) := List.mem_map.2 ⟨e, he, rfl⟩
    rw [hf] at this
    cases this
  | some w => exact ⟨w, rfl, (firstWakeups_mem wake w hf).2 e he⟩

theorem stimSel_due {m : MasterSt} {s : Speed} {w : SimTime} {stims : List Stim}
    {st : Stim} {rest : List Stim} (h : stimSel m s (some w) stims = some (st, rest)) :
    st.real ≤ dueReal m s w := by
  cases stims with
  | nil => simp [stimSel] at h
  | cons st0 rest0 =>
    simp only [stimSel, Option.map_some] at h
    split at h
    · rename_i hle
      simp only [Option.some.injEq, Prod.mk.injEq] at h
      rw [← h.1]; exact hle
    · cases h

/-- a wakeup whose time has been reached in real time is served at once -/
theorem dueReal_now_of_reached (m : MasterSt) (sp : Speed) (w v : SimTime) (hwv : w ≤ v)
    (hv : (v - m.tickerTime) * sp.den ≤ (m.now - m.lastReal) * sp.num) : dueReal m sp w = m.now := by
  rw [dueReal_eq, if_pos]
  rw [sleepNumer_eq]
  have : (w - m.tickerTime) * (sp.den : Int) ≤ (v - m.tickerTime) * (sp.den : Int) :=
    Int.mul_le_mul_of_nonneg_right (by simp only [SimTime] at *; omega) (by omega)
  simp only [SimTime] at *
  omega

/-- if some wakeup of the master has been reached in real time (and is `≤ bound` in simulation
time), the next tick record — if there is one — is started at the present real time `m.now`,
for a simulation time `≤ bound`. -/
theorem Run.next_real {S : Static} {orc : Oracle} {fuel : Nat} {sp : Speed} {m : MasterSt}
    {stims : List Stim} {acc : List TickRec} {m2 : MasterSt} {ticks : List TickRec}
    {log : List StimEv} (h : Run S orc fuel sp m stims acc m2 ticks log) (hd : 0 < sp.den)
    (top : Comp) (bound : SimTime) :
    m.lastReal ≤ m.now →
    (∃ e ∈ (m.sim.sched "").wake, e.1 = top ∧ e.2 ≤ bound ∧
      (e.2 - m.tickerTime) * sp.den ≤ (m.now - m.lastReal) * sp.num) →
    ∀ x, ticks[acc.length]? = some x →
      x.real = m.now ∧ x.time ≤ bound ∧ (x.time = bound → top ∈ x.roots) := by
  induction h with
  | stop m stims acc =>
    intro _ _ x hx
    have := (List.getElem?_eq_some_iff.1 hx).1
    omega
  | @stim m stims acc st rest m2 ticks log hsel _ ih =>
    intro hLN ⟨e, he, het, heb, hes⟩ x hx
    obtain ⟨w, hw, hwe⟩ := firstWakeups_some_of_mem _ e he
    rw [hw] at hsel
    have hdue := stimSel_due hsel
    rw [dueReal_now_of_reached m sp w e.2 hwe hes] at hdue
    have hnow : (if st.real < m.now then m.now else st.real) = m.now := by
      split <;> omega
    have hnow' : (stimStep S fuel sp m st).now = m.now := hnow
    have hres := ih (by show m.lastReal ≤ (stimStep S fuel sp m st).now; rw [hnow']; exact hLN) ?_ x hx
    · rw [hnow'] at hres; exact hres
    · rw [stimStep_wake]
      show ∃ e' ∈ addWakeup _ _ _, e'.1 = top ∧ e'.2 ≤ bound ∧
        (e'.2 - m.tickerTime) * sp.den ≤ ((stimStep S fuel sp m st).now - m.lastReal) * sp.num
      rw [hnow']
      rcases upsert_keeps (m.sim.sched "").wake (raiseInterrupt S fuel st.comp m.sim).2
        (stimWhen (m.sim.sched "").wake (raiseInterrupt S fuel st.comp m.sim).2
          (interruptStamp m.tickerTime (if st.real < m.now then m.now else st.real) m.lastReal sp))
        e he with hk | hk
      · exact ⟨e, hk, het, heb, hes⟩
      · obtain ⟨hk1, hk⟩ := hk
        refine ⟨_, upsert_self_mem _ _ _, by rw [← hk1]; exact het, ?_, ?_⟩
        · exact Int.le_trans (stimWhen_le_old _ _ _ _ hk) heb
        · have h1 := stimWhen_le_old _ _ (interruptStamp m.tickerTime
            (if st.real < m.now then m.now else st.real) m.lastReal sp) _ hk
          have : (stimWhen (m.sim.sched "").wake (raiseInterrupt S fuel st.comp m.sim).2
              (interruptStamp m.tickerTime (if st.real < m.now then m.now else st.real) m.lastReal sp)
              - m.tickerTime) * (sp.den : Int) ≤ (e.2 - m.tickerTime) * (sp.den : Int) :=
            Int.mul_le_mul_of_nonneg_right (by simp only [SimTime] at *; omega) (by omega)
          exact Int.le_trans this hes
  | @tick m stims acc comps w sim2 out m2 ticks log hsel hfw htick hrun ih =>
    intro hLN ⟨e, he, het, heb, hes⟩ x hx
    obtain ⟨t, ht⟩ := hrun.prefix
    rw [ht, List.append_assoc, List.getElem?_append_right (Nat.le_refl _), Nat.sub_self] at hx
    simp only [List.singleton_append, List.getElem?_cons_zero, Option.some.injEq] at hx
    subst hx
    have hsnd : (firstWakeups (m.sim.sched "").wake).2 = some w := by rw [hfw]
    have hwe := (firstWakeups_mem _ _ hsnd).2 e he
    refine ⟨dueReal_now_of_reached m sp w e.2 hwe hes, Int.le_trans hwe heb, fun hwb => ?_⟩
    have hwb : w = bound := hwb
    have hew : e.2 = w := by simp only [SimTime] at *; omega
    have hcs := ((firstWakeups_eq _ _ _).1 hfw).2
    show top ∈ comps
    rw [hcs]
    exact List.mem_map.2 ⟨e, List.mem_filter.2 ⟨he, by simp [hew]⟩, het⟩

/-- every handled stimulus: the tick record that follows it — if there is one — is started at
the real time `ev.now` at which the stimulus was handled, for a simulation time `≤ ev.when`
(`≤` its stamp); if it is the tick for `ev.when`, the interrupting component is among its roots. -/
theorem Run.served {S : Static} {orc : Oracle} {fuel : Nat} {sp : Speed} {m : MasterSt}
    {stims : List Stim} {acc : List TickRec} {m2 : MasterSt} {ticks : List TickRec}
    {log : List StimEv} (h : Run S orc fuel sp m stims acc m2 ticks log) (hd : 0 < sp.den) :
    m.lastReal ≤ m.now →
    ∀ ev ∈ log, ∀ x, ticks[ev.k]? = some x →
      x.real = ev.now ∧ x.time ≤ ev.when S fuel sp ∧ (x.time = ev.when S fuel sp → ev.top S fuel ∈ x.roots) := by
  induction h with
  | stop => intro _ ev hev; cases hev
  | @stim m stims acc st rest m2 ticks log hsel hrun ih =>
    intro hLN ev hev x hx
    have hLN' : m.lastReal ≤ (if st.real < m.now then m.now else st.real) := by
      split <;> omega
    rcases List.mem_cons.1 hev with hev | hev
    · subst hev
      refine hrun.next_real hd _ _ hLN' ?_ x hx
      rw [stimStep_wake]
      refine ⟨_, upsert_self_mem _ _ _, rfl, Int.le_refl _, ?_⟩
      have h1 := stimWhen_le_stamp (m.sim.sched "").wake (raiseInterrupt S fuel st.comp m.sim).2
        (interruptStamp m.tickerTime (if st.real < m.now then m.now else st.real) m.lastReal sp)
      have h2 := (stamp_law' m.tickerTime (if st.real < m.now then m.now else st.real) m.lastReal sp
        hd hLN').1
      have : (stimWhen (m.sim.sched "").wake (raiseInterrupt S fuel st.comp m.sim).2
          (interruptStamp m.tickerTime (if st.real < m.now then m.now else st.real) m.lastReal sp)
          - m.tickerTime) * (sp.den : Int) ≤
          (interruptStamp m.tickerTime (if st.real < m.now then m.now else st.real) m.lastReal sp
            - m.tickerTime) * (sp.den : Int) :=
        Int.mul_le_mul_of_nonneg_right (by simp only [SimTime] at *; omega) (by omega)
      exact Int.le_trans this h2
    · exact ih hLN' ev hev x hx
  | tick _ _ _ _ ih =>
    intro _ ev hev x hx
    exact ih (Int.le_refl _) ev hev x hx

/-- every handled stimulus was handled in a state whose `(tickerTime, lastReal)` is the last
tick record written before it, in which real time had not run backwards, and in which
simulation time was not ahead of real time. -/
theorem Run.events {S : Static} {orc : Oracle} {fuel : Nat} {sp : Speed} {m : MasterSt}
    {stims : List Stim} {acc : List TickRec} {m2 : MasterSt} {ticks : List TickRec}
    {log : List StimEv} (h : Run S orc fuel sp m stims acc m2 ticks log) (hs : 0 < sp.num)
    (t0 : SimTime) (now0 : Int) :
    ∀ z, acc.getLast? = some z → z.time = m.tickerTime → z.real = m.lastReal →
      m.lastReal ≤ m.now →
      (m.tickerTime - t0) * sp.den ≤ (m.lastReal - now0) * sp.num →
      ∀ ev ∈ log, ev.m.lastReal ≤ ev.m.now ∧
        (ev.m.tickerTime - t0) * sp.den ≤ (ev.m.lastReal - now0) * sp.num ∧
        1 ≤ ev.k ∧ ∃ z', ticks[ev.k - 1]? = some z' ∧ z'.time = ev.m.tickerTime ∧
          z'.real = ev.m.lastReal := by
  induction h with
  | stop => intro _ _ _ _ _ _ ev hev; cases hev
  | @stim m stims acc st rest m2 ticks log hsel hrun ih =>
    intro z hz hzt hzr hLN hinv ev hev
    rcases List.mem_cons.1 hev with hev | hev
    · subst hev
      obtain ⟨t, ht⟩ := hrun.prefix
      have hlen : 1 ≤ acc.length := by
        cases acc with
        | nil => simp at hz
        | cons _ _ => simp
      refine ⟨hLN, hinv, hlen, z, ?_, hzt, hzr⟩
      show ticks[acc.length - 1]? = some z
      rw [ht, List.getElem?_append_left (by omega), ← List.getLast?_eq_getElem?]
      exact hz
    · refine ih z hz hzt hzr ?_ hinv ev hev
      show m.lastReal ≤ (if st.real < m.now then m.now else st.real)
      split <;> omega
  | @tick m stims acc comps w sim2 out m2 ticks log hsel hfw htick _ ih =>
    intro z hz hzt hzr hLN hinv ev hev
    refine ih ⟨w, dueReal m sp w, comps⟩ (by simp) rfl rfl (Int.le_refl _) ?_ ev hev
    have h1 := (never_early' m sp hs w).2
    show (w - t0) * (sp.den : Int) ≤ (dueReal m sp w - now0) * (sp.num : Int)
    generalize dueReal m sp w = D at *
    simp only [SimTime] at *
    simp only [Int.sub_mul] at *
    omega

/-! ## from the initial tick -/

theorem masterInitial_shape {S : Static} {orc : Oracle} {fuel : Nat} {t0 : SimTime} {now0 : Int}
    {m : MasterSt} {tr : TickRec} (h : masterInitial S orc fuel t0 now0 = .ok (m, tr)) :
    tr.time = t0 ∧ tr.real = now0 ∧ m.tickerTime = t0 ∧ m.lastReal = now0 ∧ m.now = now0 := by
  unfold masterInitial at h
  split at h
  · cases h
  · simp only [] at h
    split at h
    · cases h
    · simp only [Except.ok.injEq, Prod.mk.injEq] at h
      obtain ⟨rfl, rfl⟩ := h
      exact ⟨rfl, rfl, rfl, rfl, rfl⟩

/-- initial tick + run: the run is a `Run`, the first record is the initial tick `(t0, now0)`,
and every record is linked to the previous one. -/
theorem initial_run {S : Static} {orc : Oracle} {fuel : Nat} {t0 : SimTime} {now0 : Int}
    {sp : Speed} {steps nTicks : Nat} {stims : List Stim} {m m2 : MasterSt} {tr : TickRec}
    {ticks : List TickRec}
    (h : masterInitial S orc fuel t0 now0 = .ok (m, tr))
    (h2 : masterRun S orc fuel sp steps nTicks m stims [tr] = .ok (m2, ticks)) :
    ∃ log, Run S orc fuel sp m stims [tr] m2 ticks log ∧
      Consec (Link sp (stims = [])) ticks ∧ ticks[0]? = some tr ∧ tr.time = t0 ∧ tr.real = now0 := by
  obtain ⟨log, hrun⟩ := masterRun_run S orc fuel sp steps nTicks m stims [tr] m2 ticks h2
  obtain ⟨h1, h2', h3, h4, h5⟩ := masterInitial_shape h
  refine ⟨log, hrun, ?_, ?_, h1, h2'⟩
  · refine hrun.links tr rfl (by rw [h1, h3]) (by rw [h2', h4]) (by omega)
      (fun hc => ⟨hc, by omega⟩) (consec_single _ _)
  · obtain ⟨t, ht⟩ := hrun.prefix
    rw [ht]; rfl

theorem ticks_index {ticks : List TickRec} {x : TickRec} (hx : x ∈ ticks) :
    ∃ k : Nat, ticks[k]? = some x := by
  obtain ⟨k, hk, rfl⟩ := List.mem_iff_getElem.1 hx
  exact ⟨k, List.getElem?_eq_getElem hk⟩

end Pacing
end Tickit
