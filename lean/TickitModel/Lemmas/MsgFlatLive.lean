/-
Completion of a message-level tick (C13): from every reachable state some continuation
(starting whoever has not started, delivering what is in flight) completes the tick; a tick
cannot complete while a component that was sent an `Input` has not started; at completion
every component has handled exactly the `Input`s it was sent.
-/
import TickitModel.Lemmas.MsgFlatInv
import TickitModel.Lemmas.TickEqLemmas

set_option autoImplicit false

namespace Tickit

variable {Val : Type}

/-! ### running action lists -/

@[simp] theorem MsgSt.run_nil {w : Wiring} {rx : MsgReact Val} {t : SimTime} {roots : List Comp}
    (m : MsgSt Val) : MsgSt.run w rx t roots m [] = some m := rfl

theorem MsgSt.run_cons_ok {w : Wiring} {rx : MsgReact Val} {t : SimTime} {roots : List Comp}
    {m m1 : MsgSt Val} {a : MsgAct} (h : m.step w rx t roots a = some (.ok m1))
    (as : List MsgAct) :
    MsgSt.run w rx t roots m (a :: as) = MsgSt.run w rx t roots m1 as := by
  simp [MsgSt.run, h]

theorem MsgSt.run_append {w : Wiring} {rx : MsgReact Val} {t : SimTime} {roots : List Comp}
    (m : MsgSt Val) (as bs : List MsgAct) :
    MsgSt.run w rx t roots m (as ++ bs) =
      (MsgSt.run w rx t roots m as).bind (fun m1 => MsgSt.run w rx t roots m1 bs) := by
  induction as generalizing m with
  | nil => simp
  | cons a as ih =>
    simp only [List.cons_append, MsgSt.run]
    cases hstep : m.step w rx t roots a with
    | none => simp
    | some r =>
      cases r with
      | error e => simp
      | ok m1 => simpa using ih m1

theorem MsgSt.Reach.run {w : Wiring} {rx : MsgReact Val} {t : SimTime} {roots : List Comp}
    {m0 m m' : MsgSt Val} (h : MsgSt.Reach w rx t roots m0 m) {acts : List MsgAct}
    (hr : MsgSt.run w rx t roots m acts = some m') : MsgSt.Reach w rx t roots m0 m' := by
  induction acts generalizing m with
  | nil => simp at hr; exact hr ▸ h
  | cons a as ih =>
    simp only [MsgSt.run] at hr
    cases hstep : m.step w rx t roots a with
    | none => simp [hstep] at hr
    | some r =>
      cases r with
      | error e => simp [hstep] at hr
      | ok m1 =>
        simp only [hstep] at hr
        exact ih (h.step hstep) hr

theorem MsgSt.step_hist_extends {w : Wiring} {rx : MsgReact Val} {t : SimTime} {roots : List Comp}
    {m m' : MsgSt Val} {a : MsgAct} (h : m.step w rx t roots a = some (.ok m')) :
    ∃ post, m'.hist = m.hist ++ post := by
  cases a with
  | startSched =>
    obtain ⟨_, r, _, rfl⟩ := MsgSt.step_startSched_ok h
    exact ⟨_, by rw [MsgSt.hist_sendAll, MsgSt.hist_setTk]⟩
  | startComp c =>
    obtain ⟨_, rfl⟩ := MsgSt.step_startComp_ok h
    exact ⟨[], by simp⟩
  | deliverIn c =>
    simp only [MsgSt.step] at h
    split at h
    · split at h
      · cases h
      · cases h; exact ⟨_, rfl⟩
      · cases h; exact ⟨[], by simp⟩
    · cases h
  | deliverOut c =>
    obtain ⟨tk, μ, _, _, ⟨src, t', ch, ca, r, _, _, rfl⟩ | ⟨_, rfl⟩⟩ := MsgSt.step_deliverOut_ok h
    · exact ⟨_, by rw [MsgSt.hist_noteWakeup, MsgSt.hist_sendAll, MsgSt.hist_setTk,
        MsgSt.hist_record, MsgSt.hist_advance, List.append_assoc]⟩
    · exact ⟨[], by simp⟩

theorem MsgSt.run_hist_extends {w : Wiring} {rx : MsgReact Val} {t : SimTime} {roots : List Comp}
    {m m' : MsgSt Val} {acts : List MsgAct}
    (hr : MsgSt.run w rx t roots m acts = some m') : ∃ post, m'.hist = m.hist ++ post := by
  induction acts generalizing m with
  | nil => simp at hr; exact ⟨[], by simp [hr]⟩
  | cons a as ih =>
    simp only [MsgSt.run] at hr
    cases hstep : m.step w rx t roots a with
    | none => simp [hstep] at hr
    | some r =>
      cases r with
      | error e => simp [hstep] at hr
      | ok m1 =>
        simp only [hstep] at hr
        obtain ⟨p1, h1⟩ := MsgSt.step_hist_extends hstep
        obtain ⟨p2, h2⟩ := ih hr
        exact ⟨p1 ++ p2, by rw [h2, h1, List.append_assoc]⟩

/-! ### enabledness -/

theorem TickSys.propagate_of_step {w : Wiring} {react : React Val} {s s' : TickSys Val} {i : Nat}
    {d : Dispatch Val} (hi : s.pending[i]? = some d) (h : s.step w react i = some (.ok s')) :
    ∃ r, s.tk.propagate w d.comp d.time (answerOf react d) = .ok r := by
  simp only [TickSys.step, hi, Option.some.injEq] at h
  cases hp : s.tk.propagate w d.comp d.time (answerOf react d) with
  | error e => rw [hp] at h; cases h
  | ok r => exact ⟨r, rfl⟩

/-- whatever waits in `out c` can be delivered to the scheduler, and the scheduler does not
fail on it. -/
theorem MsgSim.deliverOut_ok {w : Wiring} {rx : MsgReact Val} {t : SimTime} {roots : List Comp}
    (hroots : ∀ c ∈ extent w roots, (w.ups c).isSome)
    {m : MsgSt Val} {s : TickSys Val} (hs : MsgSim rx m s) (hr : s.Reachable w (rx.at t) t roots)
    {c : Comp} {μ : BusMsg Val} (hμ : m.next (.outT c) = some μ) :
    ∃ m', m.step w rx t roots (.deliverOut c) = some (.ok m') := by
  obtain ⟨d, i, hi, hdc, hmsg, _⟩ := hs.slot.deliverOut hr.inv.pre.pend_nodup hμ
  have hlt : i < s.pending.length := (List.getElem?_eq_some_iff.1 hi).1
  have hdt : d.time = t :=
    (hr.inv.pre.disp_ext d (hr.inv.pre.pend_trace d (List.mem_of_getElem? hi))).2
  obtain ⟨s', hstep⟩ := hr.inv.step_ok (react := rx.at t) hroots hlt
  obtain ⟨r, hprop⟩ := TickSys.propagate_of_step hi hstep
  rw [hdc, hdt] at hprop
  rw [hdt] at hmsg
  rcases hmsg with ⟨ca, rfl⟩ | ⟨rfl, he⟩
  · simp only [MsgSt.step, hs.tk, hμ, MsgSt.absorb, hprop, Except.map]
    exact ⟨_, rfl⟩
  · rw [he] at hprop
    simp only [MsgSt.step, hs.tk, hμ, MsgSt.absorb, hprop, Except.map]
    exact ⟨_, rfl⟩

/-- **one round**: for any pending dispatch `d`, starting its component if necessary and
delivering what is in flight for it answers `d`: one abstract step. -/
theorem MsgSim.round {w : Wiring} {rx : MsgReact Val} {t : SimTime} {roots : List Comp}
    (hroots : ∀ c ∈ extent w roots, (w.ups c).isSome)
    {m : MsgSt Val} {s : TickSys Val} (hs : MsgSim rx m s) (hr : s.Reachable w (rx.at t) t roots)
    {d : Dispatch Val} (hd : d ∈ s.pending) :
    ∃ acts m' i s', MsgSt.run w rx t roots m acts = some m' ∧
      s.step w (rx.at t) i = some (.ok s') ∧ MsgSim rx m' s' := by
  -- once something waits in `out d.comp`: deliver it
  have finish : ∀ m1 : MsgSt Val, MsgSim rx m1 s → (∃ μ, m1.next (.outT d.comp) = some μ) →
      ∃ m' i s', m1.step w rx t roots (.deliverOut d.comp) = some (.ok m') ∧
        s.step w (rx.at t) i = some (.ok s') ∧ MsgSim rx m' s' := by
    intro m1 hs1 ⟨μ, hμ⟩
    obtain ⟨m', hstep⟩ := hs1.deliverOut_ok hroots hr hμ
    obtain ⟨i, s', hst, hs'⟩ := hs1.step_deliverOut hr hstep
    exact ⟨m', i, s', hstep, hst, hs'⟩
  obtain ⟨o, ho, hp⟩ := hs.slot d.comp
  have hod : o = some d := (hp d).1 ⟨hd, rfl⟩
  subst hod
  generalize hc : d.comp = c at ho finish
  cases ho with
  | outputWaiting t' ins a b e f =>
    obtain ⟨m', i, s', h1, h2, h3⟩ := finish m hs ⟨_, f⟩
    exact ⟨[.deliverOut c], m', i, s', by rw [MsgSt.run_cons_ok h1]; rfl, h2, h3⟩
  | skipWaiting t' a b e =>
    obtain ⟨m', i, s', h1, h2, h3⟩ := finish m hs ⟨_, e⟩
    exact ⟨[.deliverOut c], m', i, s', by rw [MsgSt.run_cons_ok h1]; rfl, h2, h3⟩
  | inputWaiting t' ins a b e =>
    -- the component consumes its Input once it has started
    have deliver : ∀ m1 : MsgSt Val, MsgSim rx m1 s → c ∈ m1.started →
        (∀ T, m1.log T = m.log T) → (∀ T, m1.cur T = m.cur T) →
        ∃ m' i s', MsgSt.run w rx t roots m1 [.deliverIn c, .deliverOut c] = some m' ∧
          s.step w (rx.at t) i = some (.ok s') ∧ MsgSim rx m' s' := by
      intro m1 hs1 hst hl hcur
      have hμ1 : m1.next (.inT c) = some (.disp (.input c t' ins)) := by
        simpa [MsgSt.next, hl, hcur] using b
      have hstep := MsgSt.step_deliverIn_input (w := w) (rx := rx) (t := t) (roots := roots)
        hst hμ1
      have hs2 := hs1.step_stutter (by simp) hstep
      obtain ⟨m', i, s', h1, h2, h3⟩ := finish _ hs2
        ⟨.output c t' (rx c t' ins).1 (rx c t' ins).2, by simp [MsgSt.next, hl, hcur, e]⟩
      exact ⟨m', i, s', by rw [MsgSt.run_cons_ok hstep, MsgSt.run_cons_ok h1]; rfl, h2, h3⟩
    by_cases hst : c ∈ m.started
    · obtain ⟨m', i, s', h1, h2, h3⟩ := deliver m hs hst (fun _ => rfl) (fun _ => rfl)
      exact ⟨_, m', i, s', h1, h2, h3⟩
    · have hstart : m.step w rx t roots (.startComp c) =
          some (.ok { m with started := c :: m.started }) := by simp [MsgSt.step, hst]
      have hs1 := hs.step_stutter (by simp) hstart
      obtain ⟨m', i, s', h1, h2, h3⟩ := deliver _ hs1 (by simp) (fun _ => rfl) (fun _ => rfl)
      exact ⟨.startComp c :: [.deliverIn c, .deliverOut c], m', i, s',
        by rw [MsgSt.run_cons_ok hstart]; exact h1, h2, h3⟩

/-- from a state related to a reachable abstract state, the tick can be completed. -/
theorem MsgSim.can_complete {w : Wiring} (hacyc : w.Acyclic) {rx : MsgReact Val} {t : SimTime}
    {roots : List Comp} (hroots : ∀ c ∈ extent w roots, (w.ups c).isSome) :
    ∀ (n : Nat) {m : MsgSt Val} {s : TickSys Val}, MsgSim rx m s →
      s.Reachable w (rx.at t) t roots → s.tk.toUpdate.length = n →
      ∃ acts m', MsgSt.run w rx t roots m acts = some m' ∧ m'.Complete := by
  intro n
  induction n with
  | zero =>
    intro m s hs _ hn
    exact ⟨[], m, rfl, s.tk, hs.tk, List.eq_nil_of_length_eq_zero hn⟩
  | succ n ih =>
    intro m s hs hr hn
    have hne : s.tk.toUpdate ≠ [] := by intro h; rw [h] at hn; simp at hn
    have hp := hr.inv.progress hacyc hne
    obtain ⟨d, hd⟩ := List.exists_mem_of_ne_nil _ hp
    obtain ⟨acts, m1, i, s1, hrun, hstep, hs1⟩ := hs.round hroots hr hd
    have hm := TickSys.step_measure' hstep
    obtain ⟨acts', m', hrun', hc⟩ := ih hs1 (hr.step hstep) (by omega)
    exact ⟨acts ++ acts', m', by rw [MsgSt.run_append, hrun]; exact hrun', hc⟩

/-! ### what was sent to `c` vs. what `c` handled -/

theorem inputsTo_cons (c : Comp) (e : Ev Val) (tr : List (Ev Val)) :
    inputsTo c (e :: tr) = inputsTo c [e] ++ inputsTo c tr :=
  inputsTo_append c [e] tr

theorem inputsTo_eq_nil {c : Comp} {tr : List (Ev Val)}
    (h : ∀ d, Ev.dispatch d ∈ tr → d.comp ≠ c) : inputsTo c tr = [] := by
  induction tr with
  | nil => rfl
  | cons e tr ih =>
    rw [inputsTo_cons, ih (fun d hd => h d (List.mem_cons_of_mem _ hd))]
    cases e with
    | answer a ch => rfl
    | dispatch d =>
      have := Dispatch.topic_ne_inT (h d (by simp))
      simp [inputsTo, this]

/-- with at most one dispatch per component (C01) the `Input`s sent to `c` are determined by
the dispatch `c` received. -/
theorem inputsTo_eq_dispatchOf {c : Comp} {tr : List (Ev Val)}
    (hcount : (tr.filter (Ev.isDispatchOf c)).length ≤ 1) :
    inputsTo c tr = match dispatchOf tr c with
      | some (.input c' t ins) => [.disp (.input c' t ins)]
      | _ => [] := by
  induction tr with
  | nil => rfl
  | cons e tr ih =>
    rw [inputsTo_cons]
    cases e with
    | answer a ch =>
      rw [dispatchOf_cons_answer]
      simp only [List.filter_cons, Ev.isDispatchOf] at hcount
      simpa using ih (by simpa using hcount)
    | dispatch d =>
      rw [dispatchOf_cons_dispatch]
      by_cases hc : d.comp = c
      · have htl : tr.filter (Ev.isDispatchOf c) = [] := by
          simp only [List.filter_cons, Ev.isDispatchOf, hc, beq_self_eq_true,
            if_true, List.length_cons] at hcount
          exact List.eq_nil_of_length_eq_zero (by omega)
        have hnil : inputsTo c tr = [] := by
          apply inputsTo_eq_nil
          intro d' hd' hc'
          have : Ev.dispatch d' ∈ tr.filter (Ev.isDispatchOf c) := by
            simp [List.mem_filter, hd', Ev.isDispatchOf, hc']
          rw [htl] at this; cases this
        rw [hnil, if_pos hc]
        cases d with
        | input c' t' ins =>
          simp only [Dispatch.comp] at hc; subst hc
          simp [inputsTo, Dispatch.topic]
        | skip c' t' => simp [inputsTo, Dispatch.topic]
      · rw [if_neg hc]
        have : inputsTo c [Ev.dispatch d] = [] := by
          simp [inputsTo, Dispatch.topic_ne_inT hc]
        rw [this, List.nil_append]
        apply ih
        simpa [List.filter_cons, Ev.isDispatchOf, hc] using hcount

theorem mem_reactsOf {c : Comp} {h : List (MsgEv Val)} {t : SimTime} {ins : List (Port × Val)} :
    (t, ins) ∈ reactsOf c h ↔ MsgEv.react c t ins ∈ h := by
  simp only [reactsOf, List.mem_filterMap]
  constructor
  · rintro ⟨e, he, heq⟩
    cases e with
    | react c' t' ins' =>
      by_cases hc : c' = c
      · subst hc
        simp only [if_true, Option.some.injEq, Prod.mk.injEq] at heq
        obtain ⟨rfl, rfl⟩ := heq
        exact he
      · simp [hc] at heq
    | dispatch d => simp at heq
    | answer a ch => simp at heq
  · intro hm
    exact ⟨_, hm, by simp⟩

theorem reactsOf_eq_nil_iff {c : Comp} {h : List (MsgEv Val)} :
    reactsOf c h = [] ↔ ∀ t ins, MsgEv.react c t ins ∉ h := by
  rw [List.eq_nil_iff_forall_not_mem]
  constructor
  · intro hh t ins hm; exact hh (t, ins) (mem_reactsOf.2 hm)
  · rintro hh ⟨t, ins⟩ hm; exact hh t ins (mem_reactsOf.1 hm)

theorem reactMsgs_injective {c : Comp} {l1 l2 : List (SimTime × List (Port × Val))}
    (h : l1.map (fun p => BusMsg.disp (Dispatch.input c p.1 p.2)) =
      l2.map (fun p => BusMsg.disp (Dispatch.input c p.1 p.2))) : l1 = l2 := by
  induction l1 generalizing l2 with
  | nil => cases l2 <;> simp_all
  | cons a l1 ih =>
    cases l2 with
    | nil => simp at h
    | cons b l2 =>
      simp only [List.map_cons, List.cons.injEq, BusMsg.disp.injEq, Dispatch.input.injEq,
        true_and] at h
      obtain ⟨⟨h1, h2⟩, h3⟩ := h
      rw [ih h3, Prod.ext h1 h2]

/-- in every state of a tick what `c` has handled is a prefix of what it was sent. -/
theorem MsgInv.reacts_prefix {m0 m : MsgSt Val} (h : MsgInv m0 m) (c : Comp) :
    reactMsgs c m.hist <+: inputsTo c m.trace := by
  have h1 := h.handled c
  rw [h.inLog c] at h1
  have hle : (m0.log (.inT c)).length ≤ m.cur (.inT c) := by
    have := congrArg List.length h1
    simp at this
    omega
  obtain ⟨k, hk⟩ := Nat.exists_eq_add_of_le hle
  rw [hk, List.take_length_add_append] at h1
  have := List.append_cancel_left h1
  rw [← this]
  exact List.take_prefix _ _

/-- when nothing of `c` is in flight it has handled everything it was sent. -/
theorem MsgInv.reacts_all {m0 m : MsgSt Val} (h : MsgInv m0 m) (c : Comp)
    (hc : m.cur (.inT c) = (m.log (.inT c)).length) :
    reactMsgs c m.hist = inputsTo c m.trace := by
  have h1 := h.handled c
  rw [hc, List.take_length, h.inLog c] at h1
  exact (List.append_cancel_left h1).symm

end Tickit
