/-
Refinement, part 2: a whole run (initial tick + callback ticks, no stimuli) of the
whole-simulation model on a flat configuration is a `FlatRun` of `Core/Flat.lean`.
-/
import TickitModel.Lemmas.RefineLoop
import TickitModel.Lemmas.FlattenCorr

namespace Tickit.Refine

open Tickit

/-- a `FlatRun` of `n` callback ticks only looks at the device functions `0 … n` -/
theorem flatRun_congr {w : Wiring} {devs devs' : DevSeq V} {t0 : SimTime} {n : Nat} {st : FlatSt V}
    {times : List SimTime} (h : FlatRun w devs t0 n st times) (heq : ∀ k, k ≤ n → devs' k = devs k) :
    FlatRun w devs' t0 n st times := by
  induction h with
  | initial ht =>
    refine .initial ?_
    rw [heq 0 (Nat.le_refl _)]
    exact ht
  | @tick n st st' times cs m _ hfw ht ih =>
    refine .tick (ih (fun k hk => heq k (Nat.le_succ_of_le hk))) hfw ?_
    rw [heq (n + 1) (Nat.le_refl _)]
    exact ht

/-- the oracle-derived device functions ignore their inputs, so they are extensional -/
theorem devOf_ext (orc : Oracle) (st : SimSt) : DevExt (devOf orc st) := fun _ _ _ _ _ => rfl

/-- `ObsEq` is transitive -/
theorem obsEq_trans {Val : Type} [DecidableEq Val] :
    ∀ {a b c : List (SimTime × List (Port × Val))}, ObsEq a b → ObsEq b c → ObsEq a c
  | [], [], [], _, _ => trivial
  | [], [], _ :: _, _, h => h.elim
  | [], _ :: _, _, h, _ => h.elim
  | _ :: _, [], _, h, _ => h.elim
  | _ :: _, _ :: _, [], _, h => h.elim
  | (_, _) :: _, (_, _) :: _, (_, _) :: _, h1, h2 =>
    ⟨h1.1.trans h2.1, fun k => (h1.2.1 k).trans (h2.2.1 k), obsEq_trans h1.2.2 h2.2.2⟩

theorem R.delWake {sim : SimSt} {fl : FlatSt V} (h : R sim fl) (cs : List Comp) :
    R (sim.delWake cs) { fl with wake := delWakeups fl.wake cs } := by
  refine ⟨h.comps, ?_, h.obs⟩
  show delWakeups fl.wake cs = ((sim.delWake cs).sched "").wake
  unfold SimSt.delWake
  simp only []
  rw [SimSt.sched_upsert, if_pos rfl, h.wake]

/-- the initial tick -/
theorem masterInitial_flat {S : Static} (hsys : S.systems = []) {L : Level} (hL : S.level "" = some L)
    {orc : Oracle} {fuel : Nat} {t0 : SimTime} {now : Int} {m : MasterSt} {tr : TickRec}
    (h : masterInitial S orc fuel t0 now = .ok (m, tr)) :
    ∃ fl, FlatRun L.wiring (fun _ => devOf orc {}) t0 0 fl [t0] ∧ R m.sim fl ∧ tr.time = t0 ∧
      ∀ k : Nat, DevExt ((fun _ => devOf orc {} : DevSeq V) k) := by
  obtain ⟨L', out, hL', ht⟩ := masterInitial_tick h
  rw [hL] at hL'; cases hL'
  obtain ⟨fl, hrun, hR⟩ := tickLevel_flat hsys hL R.empty ht
  exact ⟨fl, .initial hrun, hR, (masterInitial_clock h).2.2.2.1, fun _ => devOf_ext orc {}⟩

/-- the callback ticks -/
theorem masterRun_flat {S : Static} (hsys : S.systems = []) {L : Level} (hL : S.level "" = some L)
    {orc : Oracle} {fuel : Nat} (sp : Speed) {t0 : SimTime} {m2 : MasterSt} {ticks : List TickRec} :
    ∀ (steps nTicks : Nat) (m : MasterSt) (acc : List TickRec) (devs : DevSeq V) (n : Nat)
      (fl : FlatSt V) (times : List SimTime),
      FlatRun L.wiring devs t0 n fl times → (∀ k, DevExt (devs k)) → R m.sim fl → acc.length = n + 1 →
      times = (acc.map (·.time)).reverse →
      masterRun S orc fuel sp steps nTicks m [] acc = .ok (m2, ticks) →
      ∃ (devs' : DevSeq V) (fl' : FlatSt V) (times' : List SimTime),
        FlatRun L.wiring devs' t0 (ticks.length - 1) fl' times' ∧ R m2.sim fl' ∧
        times' = (ticks.map (·.time)).reverse ∧ ∀ k, DevExt (devs' k) := by
  intro steps
  induction steps with
  | zero =>
    intro nTicks m acc devs n fl times hrun hext hR hlen htimes h
    rw [masterRun] at h
    simp only [Except.ok.injEq, Prod.mk.injEq] at h
    obtain ⟨rfl, rfl⟩ := h
    refine ⟨devs, fl, times, ?_, hR, htimes, hext⟩
    rw [hlen]; exact hrun
  | succ steps ih =>
    intro nTicks m acc devs n fl times hrun hext hR hlen htimes h
    cases nTicks with
    | zero =>
      rw [masterRun.eq_2 _ _ _ _ _ _ _ _ (by simp)] at h
      simp only [Except.ok.injEq, Prod.mk.injEq] at h
      obtain ⟨rfl, rfl⟩ := h
      refine ⟨devs, fl, times, ?_, hR, htimes, hext⟩
      rw [hlen]; exact hrun
    | succ nTicks =>
      rw [masterRun_no_stims] at h
      cases hfw : firstWakeups (m.sim.sched "").wake with
      | mk comps whenT =>
        rw [hfw] at h
        cases whenT with
        | none =>
          simp only [Except.ok.injEq, Prod.mk.injEq] at h
          obtain ⟨rfl, rfl⟩ := h
          refine ⟨devs, fl, times, ?_, hR, htimes, hext⟩
          rw [hlen]; exact hrun
        | some w =>
          simp only [] at h
          split at h
          · cases h
          · rename_i sim2 out htick
            obtain ⟨fl2, hrun2, hR2⟩ := tickLevel_flat hsys hL (hR.delWake comps) htick
            let devs' : DevSeq V := fun k => if k = n + 1 then devOf orc (m.sim.delWake comps) else devs k
            have hfw' : firstWakeups fl.wake = (comps, some w) := by rw [hR.wake]; exact hfw
            have hrun' : FlatRun L.wiring devs' t0 (n + 1) fl2 (w :: times) := by
              refine .tick (flatRun_congr hrun (fun k hk => ?_)) hfw' ?_
              · simp only [devs']
                rw [if_neg (by omega)]
              · simp only [devs', if_true]
                exact hrun2
            have hext' : ∀ k, DevExt (devs' k) := by
              intro k
              simp only [devs']
              split
              · exact devOf_ext _ _
              · exact hext k
            refine ih nTicks _ _ devs' (n + 1) fl2 (w :: times) hrun' hext' hR2 ?_ ?_ h
            · simp [hlen]
            · simp [htimes]

end Tickit.Refine
