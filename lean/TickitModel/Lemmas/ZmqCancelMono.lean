/-
M9c+ — what never changes again: the socket once stored, the number of factory calls once the
socket exists, the set of cancelled tasks, the record and the writes of a cancelled task.
-/
import TickitModel.Lemmas.ZmqCancelRun

namespace Tickit

/-- facts about one move of sender `i` that do not need any invariant -/
theorem ZStepCase.frame {z z' : Zmq} {i : Nat} {s : Sender} (hc : ZStepCase z i s z') :
    (z.socket = true → z'.socket = true) ∧
    (z.socket = true → z'.factoryCalls = z.factoryCalls) ∧
    (∀ j, j ≠ i → z'.senders[j]? = z.senders[j]?) ∧
    (∀ j, j ≠ i → z'.wr j = z.wr j) := by
  have hset : ∀ (s' : Sender) (j : Nat), j ≠ i → (z.senders.set i s')[j]? = z.senders[j]? := by
    intro s' j hj; rw [List.getElem?_set]; simp [Ne.symm hj]
  cases hc with
  | takeQ m q h0 hpc hq => exact ⟨id, fun _ => rfl, hset _, fun _ _ => rfl⟩
  | takeT m t h0 hpc ht => exact ⟨id, fun _ => rfl, hset _, fun _ _ => rfl⟩
  | wait hpc hw hor => exact ⟨id, fun _ => rfl, fun _ _ => rfl, fun _ _ => rfl⟩
  | pass hpc hl hm hsk => exact ⟨id, fun _ => rfl, hset _, fun _ _ => rfl⟩
  | call hpc hl hm hsk =>
    refine ⟨id, fun h => ?_, hset _, fun _ _ => rfl⟩
    rw [hsk] at h; cases h
  | made hpc => exact ⟨fun _ => rfl, fun _ => rfl, hset _, fun _ _ => rfl⟩
  | skip hpc hcur => exact ⟨id, fun _ => rfl, hset _, fun _ _ => rfl⟩
  | drained hpc => exact ⟨id, fun _ => rfl, hset _, fun _ _ => rfl⟩
  | write m hpc hcur =>
    refine ⟨id, fun _ => rfl, hset _, fun j hj => ?_⟩
    show ({ z with writes := z.writes ++ [(i, m)] } : Zmq).wr j = z.wr j
    rw [Zmq.wr_append]; simp [Ne.symm hj]

theorem zmq_getElem?_append_of_lt {α : Type} {l : List α} (t : α) {j : Nat} (h : j < l.length) :
    (l ++ [t])[j]? = l[j]? := by
  rw [List.getElem?_append]; simp [h]

/-- one action: the socket stays, no new factory call once the socket exists, cancelled tasks
stay cancelled, and a cancelled task neither moves nor writes. -/
theorem ZmqC.act_mono {c c' : ZmqC} {a : ZCAct} (hact : c.act a = some c') :
    (c.base.socket = true → c'.base.socket = true) ∧
    (c.base.socket = true → c'.base.factoryCalls = c.base.factoryCalls) ∧
    (∀ k ∈ c.cancelled, k ∈ c'.cancelled) ∧
    (∀ k ∈ c.cancelled, k < c.base.senders.length →
      c'.base.senders[k]? = c.base.senders[k]? ∧ c'.base.wr k = c.base.wr k) := by
  cases a with
  | cancel k =>
    simp only [ZmqC.act] at hact
    split at hact
    · cases hact
    split at hact
    · cases hact
    rename_i b ab hcs
    cases hact
    obtain ⟨s, hs, _, hc⟩ := cancelSender_cases hcs
    refine ⟨?_, ?_, fun j hj => List.mem_cons_of_mem _ hj, ?_⟩
    · cases hc <;> exact id
    · cases hc <;> exact fun _ => rfl
    · cases hc <;> exact fun _ _ _ => ⟨rfl, rfl⟩
  | base a =>
    cases a with
    | step i =>
      simp only [ZmqC.act] at hact
      split at hact
      · cases hact
      rename_i hi
      split at hact
      · cases hact
      rename_i b hb
      cases hact
      obtain ⟨s, hs, hc⟩ := stepSender_cases hb
      obtain ⟨h1, h2, h3, h4⟩ := hc.frame
      refine ⟨h1, h2, fun _ h => h, fun k hk _ => ?_⟩
      have : k ≠ i := fun e => hi (e ▸ hk)
      exact ⟨h3 k this, h4 k this⟩
    | enqueue m =>
      simp only [ZmqC.act, Zmq.act] at hact
      cases hact
      exact ⟨id, fun _ => rfl, fun _ h => h, fun _ _ _ => ⟨rfl, rfl⟩⟩
    | spawn msgs =>
      simp only [ZmqC.act, Zmq.act] at hact
      cases hact
      exact ⟨id, fun _ => rfl, fun _ h => h, fun _ _ hk => ⟨zmq_getElem?_append_of_lt _ hk, rfl⟩⟩
    | ensure =>
      simp only [ZmqC.act, Zmq.act] at hact
      cases hact
      exact ⟨id, fun _ => rfl, fun _ h => h, fun _ _ hk => ⟨zmq_getElem?_append_of_lt _ hk, rfl⟩⟩

/-- the same along a whole history -/
theorem ZmqC.run_mono {c : ZmqC} (hinv : CInv c) (acts : List ZCAct) :
    (c.base.socket = true → (c.run acts).base.socket = true) ∧
    (c.base.socket = true → (c.run acts).base.factoryCalls = c.base.factoryCalls) ∧
    (∀ k ∈ c.cancelled, k ∈ (c.run acts).cancelled) ∧
    (∀ k ∈ c.cancelled,
      (c.run acts).base.senders[k]? = c.base.senders[k]? ∧ (c.run acts).base.wr k = c.base.wr k) := by
  induction acts generalizing c with
  | nil => exact ⟨id, fun _ => rfl, fun _ h => h, fun _ _ => ⟨rfl, rfl⟩⟩
  | cons a as ih =>
    unfold ZmqC.run
    split
    · rename_i c' hact
      obtain ⟨h1, h2, h3, h4⟩ := ZmqC.act_mono hact
      obtain ⟨i1, i2, i3, i4⟩ := ih (hinv.act hact)
      refine ⟨fun h => i1 (h1 h), fun h => (i2 (h1 h)).trans (h2 h), fun k hk => i3 k (h3 k hk),
        fun k hk => ?_⟩
      have a4 := h4 k hk (hinv.clt k hk)
      have b4 := i4 k (h3 k hk)
      exact ⟨b4.1.trans a4.1, b4.2.trans a4.2⟩
    · exact ih hinv

end Tickit
