/-
M9c+ — progress: from every state that satisfies the invariants, a task that is not cancelled
can be brought to write its message by a finite schedule of sender moves (no cancellation, no
new task, no new message), whatever was cancelled before and wherever.
-/
import TickitModel.Lemmas.ZmqCancelRun

namespace Tickit

/-- the state after sender `i` moved to shared state `b` -/
def ZmqC.after (c : ZmqC) (i : Nat) (b : Zmq) : ZmqC :=
  { c with base := b, completed := c.completed + (if c.base.inFactory i then 1 else 0) }

theorem ZmqC.act_step {c : ZmqC} {i : Nat} {s : Sender} {b : Zmq} (hi : i ∉ c.cancelled)
    (hs : c.base.senders[i]? = some s) (hc : ZStepCase c.base i s b) :
    c.act (.base (.step i)) = some (c.after i b) := by
  simp only [ZmqC.act, if_neg hi, hc.sound hs, ZmqC.after]

theorem ZmqC.exec_cons {c c1 c' : ZmqC} {a : ZCAct} {as : List ZCAct} (h1 : c.act a = some c1)
    (h2 : c1.exec as = some c') : c.exec (a :: as) = some c' := by
  simp only [ZmqC.exec, h1, h2]

theorem ZmqC.exec_one {c c1 : ZmqC} {a : ZCAct} (h1 : c.act a = some c1) : c.exec [a] = some c1 := by
  simp only [ZmqC.exec, h1]

theorem zsteps_cons (i : Nat) (is : List Nat) : zsteps (i :: is) = .base (.step i) :: zsteps is := rfl

theorem zsteps_append (is js : List Nat) : zsteps (is ++ js) = zsteps is ++ zsteps js := by
  simp [zsteps]

theorem ZmqC.exec_steps_append {c c1 c' : ZmqC} {is js : List Nat} (h1 : c.exec (zsteps is) = some c1)
    (h2 : c1.exec (zsteps js) = some c') : c.exec (zsteps (is ++ js)) = some c' := by
  rw [zsteps_append, ZmqC.exec_append h1]; exact h2

/-- nothing that concerns sender `k` changed except its record, which is now `s'` -/
structure ZMoved (c c' : ZmqC) (k : Nat) (s' : Sender) : Prop where
  dead : c'.cancelled = c.cancelled
  q : c'.base.queue = c.base.queue
  qd : c'.base.queued = c.base.queued
  wr : c'.base.writes = c.base.writes
  snd : c'.base.senders[k]? = some s'

theorem ZMoved.refl {c : ZmqC} {k : Nat} {s : Sender} (h : c.base.senders[k]? = some s) : ZMoved c c k s :=
  ⟨rfl, rfl, rfl, rfl, h⟩

theorem ZMoved.trans {c c1 c2 : ZmqC} {k : Nat} {s1 s2 : Sender} (h1 : ZMoved c c1 k s1)
    (h2 : ZMoved c1 c2 k s2) : ZMoved c c2 k s2 :=
  ⟨h2.dead.trans h1.dead, h2.q.trans h1.q, h2.qd.trans h1.qd, h2.wr.trans h1.wr, h2.snd⟩

theorem zmq_get_set_ne {l : List Sender} {i k : Nat} (s' : Sender) (h : k ≠ i) : (l.set i s')[k]? = l[k]? := by
  rw [List.getElem?_set]; simp [Ne.symm h]

theorem zmq_get_set_self {l : List Sender} {i : Nat} {s : Sender} (s' : Sender) (h : l[i]? = some s) :
    (l.set i s')[i]? = some s' := by
  rw [List.getElem?_set]; simp [zmq_lt_of_get h]

/-- **the holder finishes**: the factory returns for holder `h`; the lock is free, the socket
stored; any other sender `k` is untouched. -/
theorem zlive_release {c : ZmqC} {h k : Nat} {s : Sender} (hinv : CInv c) (hl : c.base.lockHeld = some h)
    (hk : c.base.senders[k]? = some s) (hkh : k ≠ h) :
    ∃ c', c.exec (zsteps [h]) = some c' ∧ ZMoved c c' k s ∧ c'.base.lockHeld = none ∧
      c'.base.socket = true ∧ c'.base.waiters = c.base.waiters := by
  obtain ⟨hh, hp⟩ := hinv.held h hl
  obtain ⟨sh, hsh, hpc⟩ := get_of_pcAt hp
  refine ⟨_, ZmqC.exec_one (ZmqC.act_step hh hsh (.made hpc)), ⟨rfl, rfl, rfl, rfl, ?_⟩, rfl, rfl, rfl⟩
  show (c.base.senders.set h _)[k]? = some s
  rw [zmq_get_set_ne _ hkh]; exact hk

/-- the factory returns for `k` itself -/
theorem zlive_made {c : ZmqC} {k : Nat} {s : Sender} (hk : c.base.senders[k]? = some s)
    (hlive : k ∉ c.cancelled) (hpc : s.pc = .inFactory) :
    ∃ c', c.exec (zsteps [k]) = some c' ∧ ZMoved c c' k { s with pc := .ready } :=
  ⟨_, ZmqC.exec_one (ZmqC.act_step hlive hk (.made hpc)), ⟨rfl, rfl, rfl, rfl, zmq_get_set_self _ hk⟩⟩

/-- a task takes the free lock while there is no socket: it starts the factory -/
theorem zlive_call {c : ZmqC} {w : Nat} {sw : Sender} (hlive : w ∉ c.cancelled)
    (hsw : c.base.senders[w]? = some sw) (hpc : sw.pc = .wantLock) (hl : c.base.lockHeld = none)
    (hm : c.base.mayTake w = true) (hsk : c.base.socket = false) :
    ∃ c1, c.act (.base (.step w)) = some c1 ∧ c1.base.lockHeld = some w ∧
      c1.base.waiters = c.base.waiters.filter (· != w) ∧ ZMoved c c1 w { sw with pc := .inFactory } ∧
      ∀ k s, k ≠ w → c.base.senders[k]? = some s → ZMoved c c1 k s := by
  refine ⟨_, ZmqC.act_step hlive hsw (.call hpc hl hm hsk), rfl, rfl,
    ⟨rfl, rfl, rfl, rfl, zmq_get_set_self _ hsw⟩, fun k s hkw hk => ⟨rfl, rfl, rfl, rfl, ?_⟩⟩
  show (c.base.senders.set w _)[k]? = some s
  rw [zmq_get_set_ne _ hkw]; exact hk

theorem zmq_filter_ne_head {w : Nat} {ws : List Nat} (h : (w :: ws).Nodup) :
    (w :: ws).filter (· != w) = ws := by
  rw [List.nodup_cons] at h
  rw [List.filter_cons]
  simp only [bne_self_eq_false, Bool.false_eq_true, if_false]
  rw [List.filter_eq_self]
  intro a ha
  simp only [bne_iff_ne, ne_eq]
  intro e; subst e; exact h.1 ha

/-- **the head of the lock queue goes through**: with the lock free, the first waiter `w`
takes it (creating the socket if there is none yet) and leaves it again; the queue loses its
head; any other sender `k` is untouched. -/
theorem zlive_head {c : ZmqC} {w k : Nat} {ws : List Nat} {s : Sender} (hinv : CInv c)
    (hl : c.base.lockHeld = none) (hw : c.base.waiters = w :: ws)
    (hk : c.base.senders[k]? = some s) (hkw : k ≠ w) :
    ∃ sched c', c.exec (zsteps sched) = some c' ∧ ZMoved c c' k s ∧ c'.base.lockHeld = none ∧
      c'.base.waiters = ws := by
  obtain ⟨hwl, hp⟩ := hinv.wait w (by rw [hw]; exact List.mem_cons_self)
  obtain ⟨sw, hsw, hpc⟩ := get_of_pcAt hp
  have hm : c.base.mayTake w = true := by simp [Zmq.mayTake, hw]
  have hnd : (w :: ws).Nodup := hw ▸ hinv.nodup
  cases hsk : c.base.socket with
  | true =>
    refine ⟨[w], _, ZmqC.exec_one (ZmqC.act_step hwl hsw (.pass hpc hl hm hsk)),
      ⟨rfl, rfl, rfl, rfl, ?_⟩, hl, ?_⟩
    · show (c.base.senders.set w _)[k]? = some s
      rw [zmq_get_set_ne _ hkw]; exact hk
    · show c.base.waiters.filter (· != w) = ws
      rw [hw]; exact zmq_filter_ne_head hnd
  | false =>
    obtain ⟨c1, hact, hl1, hw1, _, hothers⟩ := zlive_call hwl hsw hpc hl hm hsk
    have hm1 := hothers k s hkw hk
    obtain ⟨c2, he2, hm2, hl2, _, hw2⟩ := zlive_release (hinv.act hact) hl1 hm1.snd hkw
    refine ⟨[w, w], c2, ZmqC.exec_cons hact he2, hm1.trans hm2, hl2, ?_⟩
    rw [hw2, hw1, hw]; exact zmq_filter_ne_head hnd

/-- **`k` takes the free lock** (nobody queues before it): it leaves `_ensure_socket` with the
socket, creating it first if there is none. -/
theorem zlive_take {c : ZmqC} {k : Nat} {s : Sender} (hl : c.base.lockHeld = none)
    (hm : c.base.mayTake k = true) (hk : c.base.senders[k]? = some s) (hlive : k ∉ c.cancelled)
    (hpc : s.pc = .wantLock) :
    ∃ sched c', c.exec (zsteps sched) = some c' ∧ ZMoved c c' k { s with pc := .ready } := by
  cases hsk : c.base.socket with
  | true =>
    exact ⟨[k], _, ZmqC.exec_one (ZmqC.act_step hlive hk (.pass hpc hl hm hsk)),
      ⟨rfl, rfl, rfl, rfl, zmq_get_set_self _ hk⟩⟩
  | false =>
    obtain ⟨c1, hact, _, _, hm1, _⟩ := zlive_call hlive hk hpc hl hm hsk
    obtain ⟨c2, he2, hm2⟩ := zlive_made hm1.snd (by rw [hm1.dead]; exact hlive) rfl
    exact ⟨[k, k], c2, ZmqC.exec_cons hact he2, hm1.trans hm2⟩

/-- with the lock free, the queue before `k` drains head by head, then `k` goes through. -/
theorem zlive_queue (n : Nat) : ∀ {c : ZmqC} {k : Nat} {s : Sender}, CInv c → c.base.waiters.length = n →
    c.base.lockHeld = none → c.base.senders[k]? = some s → k ∉ c.cancelled → s.pc = .wantLock →
    ∃ sched c', c.exec (zsteps sched) = some c' ∧ ZMoved c c' k { s with pc := .ready } := by
  induction n with
  | zero =>
    intro c k s hinv hn hl hk hlive hpc
    have : c.base.waiters = [] := List.eq_nil_of_length_eq_zero hn
    exact zlive_take hl (by simp [Zmq.mayTake, this]) hk hlive hpc
  | succ n ih =>
    intro c k s hinv hn hl hk hlive hpc
    cases hw : c.base.waiters with
    | nil => rw [hw] at hn; cases hn
    | cons w ws =>
      by_cases hkw : k = w
      · subst hkw
        exact zlive_take hl (by simp [Zmq.mayTake, hw]) hk hlive hpc
      · obtain ⟨sched1, c1, he1, hm1, hl1, hw1⟩ := zlive_head hinv hl hw hk hkw
        have hinv1 := hinv.exec he1
        have hn1 : c1.base.waiters.length = n := by rw [hw1]; rw [hw] at hn; simpa using hn
        obtain ⟨sched2, c2, he2, hm2⟩ := ih hinv1 hn1 hl1 hm1.snd (by rw [hm1.dead]; exact hlive) hpc
        exact ⟨sched1 ++ sched2, c2, ZmqC.exec_steps_append he1 he2, hm1.trans hm2⟩

/-- **a live task inside `_ensure_socket` gets the socket**: wherever it is (about to take
the lock, queued behind any number of waiters, behind a holder, or itself in the factory). -/
theorem zlive_ensure {c : ZmqC} {k : Nat} {s : Sender} (hinv : CInv c) (hk : c.base.senders[k]? = some s)
    (hlive : k ∉ c.cancelled) (hpc : s.pc = .wantLock ∨ s.pc = .inFactory) :
    ∃ sched c', c.exec (zsteps sched) = some c' ∧ ZMoved c c' k { s with pc := .ready } := by
  rcases hpc with hpc | hpc
  · cases hl : c.base.lockHeld with
    | none => exact zlive_queue _ hinv rfl hl hk hlive hpc
    | some h =>
      have hkh : k ≠ h := by
        intro e; subst e
        have := (hinv.held k hl).2
        rw [pcAt_of_get hk, hpc] at this; cases this
      obtain ⟨c1, he1, hm1, hl1, _, _⟩ := zlive_release hinv hl hk hkh
      obtain ⟨sched2, c2, he2, hm2⟩ :=
        zlive_queue _ (hinv.exec he1) rfl hl1 hm1.snd (by rw [hm1.dead]; exact hlive) hpc
      exact ⟨[h] ++ sched2, c2, ZmqC.exec_steps_append he1 he2, hm1.trans hm2⟩
  · obtain ⟨c', he, hm⟩ := zlive_made hk hlive hpc
    exact ⟨[k], c', he, hm⟩

/-- the result of `send_message` for the message in hand: it is written (appended to the
writes of `k`), nothing else concerning `k` changed. -/
structure ZSent (c c' : ZmqC) (k : Nat) (s : Sender) : Prop where
  dead : c'.cancelled = c.cancelled
  q : c'.base.queue = c.base.queue
  qd : c'.base.queued = c.base.queued
  wr : c'.base.wr k = c.base.wr k ++ s.cur.toList
  snd : ∃ s', c'.base.senders[k]? = some s' ∧ (s'.pc = .idle ∨ s'.pc = .draining) ∧
    s'.todo = s.todo ∧ s'.orig = s.orig

/-- the write itself -/
theorem zlive_write {c : ZmqC} {k : Nat} {s : Sender} (hk : c.base.senders[k]? = some s)
    (hlive : k ∉ c.cancelled) (hpc : s.pc = .ready) :
    ∃ c', c.exec (zsteps [k]) = some c' ∧ ZSent c c' k s := by
  cases hcur : s.cur with
  | none =>
    refine ⟨_, ZmqC.exec_one (ZmqC.act_step hlive hk (.skip hpc hcur)), ⟨rfl, rfl, rfl, ?_, ?_⟩⟩
    · simp [ZmqC.after, setSender, Zmq.wr, hcur]
    · exact ⟨_, zmq_get_set_self _ hk, Or.inl rfl, rfl, rfl⟩
  | some m =>
    refine ⟨_, ZmqC.exec_one (ZmqC.act_step hlive hk (.write m hpc hcur)), ⟨rfl, rfl, rfl, ?_, ?_⟩⟩
    · rw [hcur]
      show ({ c.base with writes := c.base.writes ++ [(k, m)] } : Zmq).wr k = c.base.wr k ++ [m]
      rw [Zmq.wr_append]; simp
    · exact ⟨_, zmq_get_set_self _ hk, Or.inr rfl, rfl, rfl⟩

/-- **progress of one send**: a live task that has started `send_message` (anywhere before the
write) completes it: its message is written. -/
theorem zlive_send {c : ZmqC} {k : Nat} {s : Sender} (hinv : CInv c) (hk : c.base.senders[k]? = some s)
    (hlive : k ∉ c.cancelled) (hpc : s.pc = .wantLock ∨ s.pc = .inFactory ∨ s.pc = .ready) :
    ∃ sched c', c.exec (zsteps sched) = some c' ∧ ZSent c c' k s := by
  have key : ∀ {c1 : ZmqC}, ZMoved c c1 k { s with pc := .ready } → ∀ {sched1 : List Nat},
      c.exec (zsteps sched1) = some c1 → ∃ sched c', c.exec (zsteps sched) = some c' ∧ ZSent c c' k s := by
    intro c1 hm1 sched1 he1
    obtain ⟨c2, he2, hs2⟩ := zlive_write hm1.snd (by rw [hm1.dead]; exact hlive) rfl
    refine ⟨sched1 ++ [k], c2, ZmqC.exec_steps_append he1 he2,
      ⟨hs2.dead.trans hm1.dead, hs2.q.trans hm1.q, hs2.qd.trans hm1.qd, ?_, hs2.snd⟩⟩
    rw [hs2.wr, Zmq.wr_congr hm1.wr]
  rcases hpc with hpc | hpc | hpc
  · obtain ⟨sched1, c1, he1, hm1⟩ := zlive_ensure hinv hk hlive (Or.inl hpc)
    exact key hm1 he1
  · obtain ⟨sched1, c1, he1, hm1⟩ := zlive_ensure hinv hk hlive (Or.inr hpc)
    exact key hm1 he1
  · obtain ⟨c', he, hs⟩ := zlive_write hk hlive hpc
    exact ⟨[k], c', he, hs⟩

/-! ### everything a live task still has to send gets written -/

theorem zlive_drained {c : ZmqC} {k : Nat} {s : Sender} (hk : c.base.senders[k]? = some s)
    (hlive : k ∉ c.cancelled) (hpc : s.pc = .draining) :
    ∃ c', c.exec (zsteps [k]) = some c' ∧ ZMoved c c' k { s with pc := .idle, cur := none } :=
  ⟨_, ZmqC.exec_one (ZmqC.act_step hlive hk (.drained hpc)), ⟨rfl, rfl, rfl, rfl, zmq_get_set_self _ hk⟩⟩

/-- a live task between two messages comes to rest at `idle` -/
theorem zlive_rest {c : ZmqC} {k : Nat} {s : Sender} (hk : c.base.senders[k]? = some s)
    (hlive : k ∉ c.cancelled) (hpc : s.pc = .idle ∨ s.pc = .draining) :
    ∃ sched c' s', c.exec (zsteps sched) = some c' ∧ ZMoved c c' k s' ∧ s'.pc = .idle ∧
      s'.todo = s.todo ∧ s'.orig = s.orig := by
  rcases hpc with hpc | hpc
  · exact ⟨[], c, s, rfl, ZMoved.refl hk, hpc, rfl, rfl⟩
  · obtain ⟨c', he, hm⟩ := zlive_drained hk hlive hpc
    exact ⟨[k], c', _, he, hm, rfl, rfl, rfl⟩

/-- what is known after a task has been driven to the end of its work -/
structure ZDone (c c' : ZmqC) (k : Nat) (s : Sender) : Prop where
  dead : c'.cancelled = c.cancelled
  snd : ∃ s', c'.base.senders[k]? = some s' ∧ (s'.pc = .idle ∨ s'.pc = .draining) ∧
    s'.todo = [] ∧ s'.orig = s.orig

theorem zlive_direct_rest (n : Nat) : ∀ {c : ZmqC} {k : Nat} {s : Sender}, CInv c → k ≠ 0 →
    c.base.senders[k]? = some s → k ∉ c.cancelled → (s.pc = .idle ∨ s.pc = .draining) →
    s.todo.length = n → ∃ sched c', c.exec (zsteps sched) = some c' ∧ ZDone c c' k s := by
  induction n with
  | zero =>
    intro c k s _ _ hk _ hpc hn
    exact ⟨[], c, rfl, rfl, s, hk, hpc, List.eq_nil_of_length_eq_zero hn, rfl⟩
  | succ n ih =>
    intro c k s hinv hk0 hk hlive hpc hn
    obtain ⟨sched1, c1, s1, he1, hm1, hpc1, htodo1, horig1⟩ := zlive_rest hk hlive hpc
    have hlive1 : k ∉ c1.cancelled := by rw [hm1.dead]; exact hlive
    cases htd : s.todo with
    | nil => rw [htd] at hn; cases hn
    | cons m t =>
      have hact := ZmqC.act_step hlive1 hm1.snd (.takeT m t hk0 hpc1 (htodo1.trans htd))
      have he2 := ZmqC.exec_one hact
      have hinv2 := (hinv.exec he1).act hact
      have hk2 : (c1.after k (setSender c1.base k
          { s1 with pc := .wantLock, cur := some m, todo := t })).base.senders[k]? =
          some { s1 with pc := .wantLock, cur := some m, todo := t } := zmq_get_set_self _ hm1.snd
      obtain ⟨sched3, c3, he3, hs3⟩ := zlive_send hinv2 hk2 hlive1 (Or.inl rfl)
      obtain ⟨s3, hk3, hpc3, htodo3, horig3⟩ := hs3.snd
      have hlive3 : k ∉ c3.cancelled := by rw [hs3.dead]; exact hlive1
      have hn3 : s3.todo.length = n := by
        rw [htodo3]; rw [htd] at hn; simpa using hn
      obtain ⟨sched4, c4, he4, hd4⟩ := ih ((hinv2.exec he3)) hk0 hk3 hlive3 hpc3 hn3
      obtain ⟨s4, hk4, hpc4, htodo4, horig4⟩ := hd4.snd
      refine ⟨sched1 ++ ([k] ++ (sched3 ++ sched4)), c4,
        ZmqC.exec_steps_append he1 (ZmqC.exec_steps_append he2 (ZmqC.exec_steps_append he3 he4)), ?_, ?_⟩
      · rw [hd4.dead, hs3.dead]; exact hm1.dead
      · exact ⟨s4, hk4, hpc4, htodo4, by rw [horig4, horig3]; exact horig1⟩

/-- **a live sequence task gets everything written**: wherever it is, whatever was cancelled
around it. -/
theorem zlive_direct_done {c : ZmqC} {k : Nat} {s : Sender} (hinv : CInv c) (hk0 : k ≠ 0)
    (hk : c.base.senders[k]? = some s) (hlive : k ∉ c.cancelled) :
    ∃ sched c', c.exec (zsteps sched) = some c' ∧ c'.cancelled = c.cancelled ∧ c'.base.wr k = s.orig := by
  have fin : ∀ {c1 : ZmqC} {sched1 : List Nat} {s1 : Sender}, c.exec (zsteps sched1) = some c1 →
      c1.cancelled = c.cancelled → c1.base.senders[k]? = some s1 → (s1.pc = .idle ∨ s1.pc = .draining) →
      s1.orig = s.orig →
      ∃ sched c', c.exec (zsteps sched) = some c' ∧ c'.cancelled = c.cancelled ∧ c'.base.wr k = s.orig := by
    intro c1 sched1 s1 he1 hd1 hk1 hpc1 horig1
    obtain ⟨sched2, c2, he2, hd2⟩ :=
      zlive_direct_rest _ (hinv.exec he1) hk0 hk1 (by rw [hd1]; exact hlive) hpc1 rfl
    obtain ⟨s2, hk2, hpc2, htodo2, horig2⟩ := hd2.snd
    have he := ZmqC.exec_steps_append he1 he2
    refine ⟨sched1 ++ sched2, c2, he, hd2.dead.trans hd1, ?_⟩
    have := (hinv.exec he).acc.d k s2 (by omega) hk2
    have hinfl : s2.infl = [] := by rcases hpc2 with e | e <;> simp [Sender.infl, e]
    rw [hinfl, htodo2, horig2, horig1] at this
    simpa using this
  have hpcs : (s.pc = .idle ∨ s.pc = .draining) ∨ (s.pc = .wantLock ∨ s.pc = .inFactory ∨ s.pc = .ready) := by
    cases s.pc <;> simp
  rcases hpcs with hpc | hpc
  · exact fin (sched1 := []) rfl rfl hk hpc rfl
  · obtain ⟨sched1, c1, he1, hs1⟩ := zlive_send hinv hk hlive hpc
    obtain ⟨s1, hk1, hpc1, _, horig1⟩ := hs1.snd
    exact fin he1 hs1.dead hk1 hpc1 horig1

/-! the queue loop (sender 0) -/

structure ZDone0 (c c' : ZmqC) : Prop where
  dead : c'.cancelled = c.cancelled
  qd : c'.base.queued = c.base.queued
  q : c'.base.queue = []
  snd : ∃ s', c'.base.senders[0]? = some s' ∧ (s'.pc = .idle ∨ s'.pc = .draining)

theorem zlive_queue_rest (n : Nat) : ∀ {c : ZmqC} {s : Sender}, CInv c →
    c.base.senders[0]? = some s → 0 ∉ c.cancelled → (s.pc = .idle ∨ s.pc = .draining) →
    c.base.queue.length = n → ∃ sched c', c.exec (zsteps sched) = some c' ∧ ZDone0 c c' := by
  induction n with
  | zero =>
    intro c s _ hk _ hpc hn
    exact ⟨[], c, rfl, rfl, rfl, List.eq_nil_of_length_eq_zero hn, s, hk, hpc⟩
  | succ n ih =>
    intro c s hinv hk hlive hpc hn
    obtain ⟨sched1, c1, s1, he1, hm1, hpc1, _, _⟩ := zlive_rest hk hlive hpc
    have hlive1 : 0 ∉ c1.cancelled := by rw [hm1.dead]; exact hlive
    cases hq : c.base.queue with
    | nil => rw [hq] at hn; cases hn
    | cons m q =>
      have hact := ZmqC.act_step hlive1 hm1.snd (.takeQ m q rfl hpc1 (hm1.q.trans hq))
      have he2 := ZmqC.exec_one hact
      have hinv2 := (hinv.exec he1).act hact
      have hk2 : (c1.after 0 (setSender { c1.base with queue := q } 0
          { s1 with pc := .wantLock, cur := some m })).base.senders[0]? =
          some { s1 with pc := .wantLock, cur := some m } := zmq_get_set_self _ hm1.snd
      obtain ⟨sched3, c3, he3, hs3⟩ := zlive_send hinv2 hk2 hlive1 (Or.inl rfl)
      obtain ⟨s3, hk3, hpc3, _, _⟩ := hs3.snd
      have hlive3 : 0 ∉ c3.cancelled := by rw [hs3.dead]; exact hlive1
      have hq3 : c3.base.queue = q := hs3.q
      have hn3 : c3.base.queue.length = n := by rw [hq3]; rw [hq] at hn; simpa using hn
      obtain ⟨sched4, c4, he4, hd4⟩ := ih (hinv2.exec he3) hk3 hlive3 hpc3 hn3
      refine ⟨sched1 ++ ([0] ++ (sched3 ++ sched4)), c4,
        ZmqC.exec_steps_append he1 (ZmqC.exec_steps_append he2 (ZmqC.exec_steps_append he3 he4)), ?_, ?_,
        hd4.q, hd4.snd⟩
      · rw [hd4.dead, hs3.dead]; exact hm1.dead
      · rw [hd4.qd, hs3.qd]; exact hm1.qd

/-- **while the forwarding task is alive every queued message gets written**: from any state
there is a schedule after which the writes of sender 0 are exactly the messages ever queued. -/
theorem zlive_queue_done {c : ZmqC} (hinv : CInv c) (hlive : 0 ∉ c.cancelled) :
    ∃ sched c', c.exec (zsteps sched) = some c' ∧ c'.cancelled = c.cancelled ∧
      c'.base.wr 0 = c.base.queued ∧ c'.base.queue = [] := by
  obtain ⟨s, hk, _⟩ := hinv.acc.q
  have fin : ∀ {c1 : ZmqC} {sched1 : List Nat} {s1 : Sender}, c.exec (zsteps sched1) = some c1 →
      c1.cancelled = c.cancelled → c1.base.queued = c.base.queued → c1.base.senders[0]? = some s1 →
      (s1.pc = .idle ∨ s1.pc = .draining) →
      ∃ sched c', c.exec (zsteps sched) = some c' ∧ c'.cancelled = c.cancelled ∧
        c'.base.wr 0 = c.base.queued ∧ c'.base.queue = [] := by
    intro c1 sched1 s1 he1 hd1 hqd1 hk1 hpc1
    obtain ⟨sched2, c2, he2, hd2⟩ :=
      zlive_queue_rest _ (hinv.exec he1) hk1 (by rw [hd1]; exact hlive) hpc1 rfl
    obtain ⟨s2, hk2, hpc2⟩ := hd2.snd
    have he := ZmqC.exec_steps_append he1 he2
    refine ⟨sched1 ++ sched2, c2, he, hd2.dead.trans hd1, ?_, hd2.q⟩
    obtain ⟨s0, hs0, hq0⟩ := (hinv.exec he).acc.q
    have e : s0 = s2 := Option.some.inj (hs0.symm.trans hk2)
    subst e
    have hinfl : s0.infl = [] := by rcases hpc2 with e | e <;> simp [Sender.infl, e]
    rw [hinfl, hd2.q, hd2.qd, hqd1] at hq0
    simpa using hq0
  have hpcs : (s.pc = .idle ∨ s.pc = .draining) ∨ (s.pc = .wantLock ∨ s.pc = .inFactory ∨ s.pc = .ready) := by
    cases s.pc <;> simp
  rcases hpcs with hpc | hpc
  · exact fin (sched1 := []) rfl rfl rfl hk hpc
  · obtain ⟨sched1, c1, he1, hs1⟩ := zlive_send hinv hk hlive hpc
    obtain ⟨s1, hk1, hpc1, _, _⟩ := hs1.snd
    exact fin he1 hs1.dead hs1.qd hk1 hpc1

end Tickit
