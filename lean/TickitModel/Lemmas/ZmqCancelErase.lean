/-
M9c+ — erasure: without `cancel` actions the system with cancellation IS the system of
`Core/Zmq.lean` (same enabledness, same successor states).
-/
import TickitModel.Lemmas.ZmqCancelRun

namespace Tickit

/-- while nothing is cancelled a base action is enabled in the new system iff it is in the
old one, and leads to the same shared state. -/
theorem ZmqC.act_base_erase {c : ZmqC} (hc : c.cancelled = []) (a : ZAct) :
    (c.base.act a = none → c.act (.base a) = none) ∧
    (∀ b, c.base.act a = some b →
      ∃ c', c.act (.base a) = some c' ∧ c'.base = b ∧ c'.cancelled = [] ∧ c'.aborted = c.aborted) := by
  cases a with
  | step i =>
    simp only [ZmqC.act, Zmq.act, hc, List.not_mem_nil, if_false]
    constructor
    · intro h; rw [h]
    · intro b h; rw [h]; exact ⟨_, rfl, rfl, by simp, rfl⟩
  | enqueue m =>
    simp only [ZmqC.act, Zmq.act]
    constructor
    · intro h; cases h
    · intro b h; cases h; exact ⟨_, rfl, rfl, hc, rfl⟩
  | spawn msgs =>
    simp only [ZmqC.act, Zmq.act]
    constructor
    · intro h; cases h
    · intro b h; cases h; exact ⟨_, rfl, rfl, hc, rfl⟩
  | ensure =>
    simp only [ZmqC.act, Zmq.act]
    constructor
    · intro h; cases h
    · intro b h; cases h; exact ⟨_, rfl, rfl, hc, rfl⟩

theorem ZmqC.run_erase {c : ZmqC} (hc : c.cancelled = []) (acts : List ZCAct)
    (hno : ∀ a ∈ acts, a.isCancel = false) :
    (c.run acts).base = c.base.run (eraseCancel acts) ∧ (c.run acts).cancelled = [] ∧
      (c.run acts).aborted = c.aborted := by
  induction acts generalizing c with
  | nil => exact ⟨rfl, hc, rfl⟩
  | cons a as ih =>
    have hno' : ∀ a ∈ as, a.isCancel = false := fun x hx => hno x (List.mem_cons_of_mem _ hx)
    cases a with
    | cancel k => have := hno (.cancel k) List.mem_cons_self; simp [ZCAct.isCancel] at this
    | base a =>
      obtain ⟨hnone, hsome⟩ := ZmqC.act_base_erase hc a
      simp only [ZmqC.run, eraseCancel, Zmq.run]
      cases hb : c.base.act a with
      | none => rw [hnone hb]; exact ih hc hno'
      | some b =>
        obtain ⟨c', hact, hbase, hcan, hab⟩ := hsome b hb
        rw [hact]
        have := ih hcan hno'
        rw [hbase, hab] at this
        exact this

theorem eraseCancel_map_base (acts : List ZAct) : eraseCancel (acts.map .base) = acts := by
  induction acts with
  | nil => rfl
  | cons a as ih => simp [eraseCancel, ih]

end Tickit
