/-
The forward simulation from the message-level model of a tick (`Core/MsgFlat.lean`) to the
atomic model (`Core/TickSys.lean`): every message-level step is a stutter (a component starts;
a component consumes its `Input` and produces its `Output`) or exactly one `TickSys.step` (the
scheduler consumes an `Output`/`Skip`).
-/
import TickitModel.Lemmas.MsgFlatBasic

set_option autoImplicit false

namespace Tickit

variable {Val : Type}

/-- **the simulation relation** between a message-level state and a state of `TickSys`:
same ticker, same scheduler-side trace, and the pending dispatches are exactly the messages in
flight (`Slot`: an unconsumed `Input`, an unconsumed `Skip`, or an unconsumed `Output` whose
`Input` the component has already handled). -/
structure MsgSim (rx : MsgReact Val) (m : MsgSt Val) (s : TickSys Val) : Prop where
  tk : m.tk = some s.tk
  trace : m.trace = s.trace
  slot : SlotRel rx m s.pending

/-- the pending dispatches are computed by the explicit abstraction function. -/
theorem MsgSim.pending_iff {rx : MsgReact Val} {m : MsgSt Val} {s : TickSys Val}
    (h : MsgSim rx m s) (d : Dispatch Val) : d ∈ s.pending ↔ m.inflight d.comp = some d := by
  obtain ⟨o, ho, hp⟩ := h.slot d.comp
  rw [ho.inflight_eq, ← hp d]
  simp

theorem MsgSt.absorb_eq_ok {w : Wiring} {m m' : MsgSt Val} {tk : Ticker Val} {c src : Comp}
    {t' : SimTime} {ch : List (Port × Val)} {ca : Option SimTime}
    (h : m.absorb w tk c src t' ch ca = .ok m') :
    ∃ r, tk.propagate w src t' ch = .ok r ∧
      m' = ((((m.advance (.outT c)).record (.answer src ch)).setTk r.1).sendAll r.2).noteWakeup
        src ca := by
  unfold MsgSt.absorb at h
  cases hp : tk.propagate w src t' ch with
  | error e => rw [hp] at h; cases h
  | ok r =>
    rw [hp] at h
    simp only [Except.map, Except.ok.injEq] at h
    exact ⟨r, rfl, h.symm⟩

theorem MsgSt.absorb_eq_error {w : Wiring} {m : MsgSt Val} {tk : Ticker Val} {c src : Comp}
    {t' : SimTime} {ch : List (Port × Val)} {ca : Option SimTime} {e : TickErr} :
    m.absorb w tk c src t' ch ca = .error e ↔ tk.propagate w src t' ch = .error e := by
  unfold MsgSt.absorb
  cases hp : tk.propagate w src t' ch <;> simp [Except.map]

theorem TickSys.step_of_propagate {w : Wiring} {react : React Val} {s : TickSys Val} {i : Nat}
    {d : Dispatch Val} {r : Ticker Val × List (Dispatch Val)} (hi : s.pending[i]? = some d)
    (hr : s.tk.propagate w d.comp d.time (answerOf react d) = .ok r) :
    s.step w react i = some (.ok ⟨r.1, s.pending.eraseIdx i ++ r.2,
      s.trace ++ [Ev.answer d.comp (answerOf react d)] ++ r.2.map Ev.dispatch⟩) := by
  simp [TickSys.step, hi, hr, Except.map]

/-- before the scheduler starts nothing has been produced: the state stays idle. -/
theorem MsgSt.Idle.step {w : Wiring} {rx : MsgReact Val} {t : SimTime} {roots : List Comp}
    {m m' : MsgSt Val} (hI : m.Idle) {a : MsgAct}
    (h : m.step w rx t roots a = some (.ok m')) : a = .startSched ∨ (m'.Idle ∧
      (∀ T, m'.log T = m.log T) ∧ (∀ T, m'.cur T = m.cur T)) := by
  obtain ⟨htk, hh, hc⟩ := hI
  cases a with
  | startSched => exact Or.inl rfl
  | startComp c =>
    right
    simp only [MsgSt.step] at h
    split at h
    · cases h
    · cases h; exact ⟨⟨htk, hh, hc⟩, fun _ => rfl, fun _ => rfl⟩
  | deliverIn c =>
    have hnone : m.next (.inT c) = none := by simp [MsgSt.next, hc]
    simp only [MsgSt.step, hnone] at h
    split at h <;> cases h
  | deliverOut c =>
    simp [MsgSt.step, htk] at h

/-- **the scheduler starts the tick** from an idle state: the abstract initial state. -/
theorem MsgSim.start {w : Wiring} {rx : MsgReact Val} {t : SimTime} {roots : List Comp}
    {m m' : MsgSt Val} (hI : m.Idle) (h : m.step w rx t roots .startSched = some (.ok m')) :
    ∃ s, TickSys.init w t roots = .ok s ∧ MsgSim rx m' s := by
  obtain ⟨htk, hh, hc⟩ := hI
  simp only [MsgSt.step, htk] at h
  cases hcall : (Ticker.call w t roots : Except TickErr (Ticker Val × List (Dispatch Val))) with
  | error e => simp [hcall, Except.map] at h
  | ok r =>
    simp only [hcall, Except.map, Option.some.injEq, Except.ok.injEq] at h
    subst h
    have hinit : TickSys.init w t roots = .ok (⟨r.1, r.2, r.2.map Ev.dispatch⟩ : TickSys Val) := by
      simp [TickSys.init, hcall, Except.map]
    refine ⟨_, hinit, ⟨by simp, ?_, ?_⟩⟩
    · rw [MsgSt.trace_sendAll, MsgSt.trace_setTk]; simp [MsgSt.trace, hh]
    · have hn := (TickInv.init hinit).pre.pend_nodup
      have base : SlotRel rx (m.setTk r.1) [] := by
        intro c
        exact ⟨none, .idle (hc _) (hc _), fun d => by simp⟩
      have := SlotRel.sendAll r.2 base (by simpa using hn)
      simpa using this

/-- a component starting, or a component consuming its `Input` and producing its `Output`, is
invisible to the scheduler: a stutter. -/
theorem MsgSim.step_stutter {w : Wiring} {rx : MsgReact Val} {t : SimTime} {roots : List Comp}
    {m m' : MsgSt Val} {s : TickSys Val} (hs : MsgSim rx m s) {a : MsgAct}
    (ha : ∀ c, a ≠ .deliverOut c)
    (h : m.step w rx t roots a = some (.ok m')) : MsgSim rx m' s := by
  cases a with
  | startSched => simp [MsgSt.step, hs.tk] at h
  | startComp c =>
    simp only [MsgSt.step] at h
    split at h
    · cases h
    · cases h
      exact ⟨hs.tk, hs.trace, hs.slot.congr (fun _ => rfl) (fun _ => rfl)⟩
  | deliverIn c =>
    simp only [MsgSt.step] at h
    split at h
    · cases hμ : m.next (.inT c) with
      | none => simp [hμ] at h
      | some μ =>
        obtain ⟨t', ins, rfl, _, hrel⟩ := hs.slot.deliverIn hμ
        simp only [hμ, Option.some.injEq, Except.ok.injEq] at h
        subst h
        exact ⟨hs.tk, by simpa [MsgEv.toEv] using hs.trace, hrel⟩
    · cases h
  | deliverOut c => exact absurd rfl (ha c)

/-- the scheduler consuming an `Output` / `Skip` is exactly one step of `TickSys`: the
answer of the pending dispatch of that component. -/
theorem MsgSim.step_deliverOut {w : Wiring} {rx : MsgReact Val} {t : SimTime} {roots : List Comp}
    {m m' : MsgSt Val} {s : TickSys Val} (hs : MsgSim rx m s)
    (hr : s.Reachable w (rx.at t) t roots) {c : Comp}
    (h : m.step w rx t roots (.deliverOut c) = some (.ok m')) :
    ∃ i s', s.step w (rx.at t) i = some (.ok s') ∧ MsgSim rx m' s' := by
  have hn := hr.inv.pre.pend_nodup
  simp only [MsgSt.step, hs.tk] at h
  cases hμ : m.next (.outT c) with
  | none => simp [hμ] at h
  | some μ =>
    obtain ⟨d, i, hi, hdc, hmsg, hrel⟩ := hs.slot.deliverOut hn hμ
    -- the message carries the tick's time
    have hdt : d.time = t :=
      (hr.inv.pre.disp_ext d (hr.inv.pre.pend_trace d (List.mem_of_getElem? hi))).2
    rw [hdt] at hmsg
    -- both kinds of answer lead to the same `absorb`
    have hab : ∃ ca, m.absorb w s.tk c d.comp d.time (answerOf (rx.at t) d) ca = .ok m' := by
      rcases hmsg with ⟨ca, rfl⟩ | ⟨rfl, he⟩
      · simp only [hμ, Option.some.injEq] at h; rw [hdc, hdt]; exact ⟨ca, h⟩
      · simp only [hμ, Option.some.injEq] at h; rw [hdc, he, hdt]; exact ⟨none, h⟩
    obtain ⟨ca, hab⟩ := hab
    obtain ⟨r, hprop, rfl⟩ := MsgSt.absorb_eq_ok hab
    have hstep := TickSys.step_of_propagate (react := rx.at t) hi hprop
    refine ⟨i, _, hstep, ⟨by simp, ?_, ?_⟩⟩
    · rw [MsgSt.trace_noteWakeup, MsgSt.trace_sendAll, MsgSt.trace_setTk, MsgSt.trace_record,
        MsgSt.trace_advance, hs.trace]
      simp [MsgEv.toEv]
    · have hn' := (hr.step hstep).inv.pre.pend_nodup
      have base : SlotRel rx (((m.advance (.outT c)).record (.answer d.comp
          (answerOf (rx.at t) d))).setTk r.1) (s.pending.eraseIdx i) :=
        hrel.congr (fun _ => rfl) (fun _ => rfl)
      exact (SlotRel.sendAll r.2 base hn').congr (fun _ => by simp) (fun _ => by simp)

/-- **every message-level step is a stutter or one abstract step.** -/
theorem MsgSim.step {w : Wiring} {rx : MsgReact Val} {t : SimTime} {roots : List Comp}
    {m m' : MsgSt Val} {s : TickSys Val} (hs : MsgSim rx m s)
    (hr : s.Reachable w (rx.at t) t roots) {a : MsgAct}
    (h : m.step w rx t roots a = some (.ok m')) :
    MsgSim rx m' s ∨ ∃ i s', s.step w (rx.at t) i = some (.ok s') ∧ MsgSim rx m' s' := by
  by_cases ha : ∃ c, a = .deliverOut c
  · obtain ⟨c, rfl⟩ := ha
    exact Or.inr (hs.step_deliverOut hr h)
  · exact Or.inl (hs.step_stutter (fun c hc => ha ⟨c, hc⟩) h)

/-- **refinement, state form**: every message-level state of a tick begun from an idle state
is either still idle (the scheduler has not started: nothing but component starts happened)
or related to a reachable state of `TickSys`. -/
theorem MsgSt.Reach.sim {w : Wiring} {rx : MsgReact Val} {t : SimTime} {roots : List Comp}
    {m0 m : MsgSt Val} (h0 : m0.Idle) (h : MsgSt.Reach w rx t roots m0 m) :
    (m.Idle ∧ (∀ T, m.log T = m0.log T) ∧ (∀ T, m.cur T = m0.cur T)) ∨
      ∃ s, s.Reachable w (rx.at t) t roots ∧ MsgSim rx m s := by
  induction h with
  | init => exact Or.inl ⟨h0, fun _ => rfl, fun _ => rfl⟩
  | @step m m' a _ hstep ih =>
    rcases ih with ⟨hI, hl, hc⟩ | ⟨s, hr, hs⟩
    · rcases hI.step hstep with rfl | ⟨hI', hl', hc'⟩
      · obtain ⟨s, hinit, hsim⟩ := MsgSim.start hI hstep
        exact Or.inr ⟨s, .init hinit, hsim⟩
      · exact Or.inl ⟨hI', fun T => (hl' T).trans (hl T), fun T => (hc' T).trans (hc T)⟩
    · rcases hs.step hr hstep with hs' | ⟨i, s', hst, hs'⟩
      · exact Or.inr ⟨s, hr, hs'⟩
      · exact Or.inr ⟨s', hr.step hst, hs'⟩

end Tickit
