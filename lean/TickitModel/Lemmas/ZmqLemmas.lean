/-
Helper lemmas for M9c (ZeroMQ push stream).
-/
import TickitModel.Core.Zmq

namespace Tickit

/-- the message a sender has taken but not yet written -/
def Sender.infl (s : Sender) : List Nat :=
  match s.pc with
  | .wantLock | .inFactory | .ready => s.cur.toList
  | .idle | .draining => []

/-- messages written by sender `i`, in order -/
def Zmq.wr (z : Zmq) (i : Nat) : List Nat := (z.writes.filter (fun w => w.1 == i)).map (·.2)

theorem Sender.infl_length_le (s : Sender) : s.infl.length ≤ 1 := by
  unfold Sender.infl
  split <;> cases s.cur <;> simp

structure ZInv (z : Zmq) : Prop where
  fc : z.factoryCalls = if (z.socket = true ∨ z.lockHeld.isSome = true) then 1 else 0
  holder : ∀ (i : Nat) (s : Sender), z.senders[i]? = some s → s.pc = .inFactory → z.lockHeld = some i
  sock : ∀ (i : Nat) (s : Sender), z.senders[i]? = some s → (s.pc = .ready ∨ s.pc = .draining) → z.socket = true
  wsock : z.writes ≠ [] → z.socket = true
  wlt : ∀ w ∈ z.writes, w.1 < z.senders.length
  q : ∃ s0, z.senders[0]? = some s0 ∧ z.wr 0 ++ s0.infl ++ z.queue = z.queued
  d : ∀ (i : Nat) (s : Sender), 0 < i → z.senders[i]? = some s → z.wr i ++ s.infl ++ s.todo = s.orig

theorem getElem?_set_some {α : Type} {l : List α} {i j : Nat} {a s t : α} (h : l[i]? = some s) :
    (l.set i a)[j]? = some t ↔ (j = i ∧ t = a) ∨ (j ≠ i ∧ l[j]? = some t) := by
  have hi : i < l.length := by
    rcases Nat.lt_or_ge i l.length with h' | h'
    · exact h'
    · rw [List.getElem?_eq_none h'] at h; cases h
  rw [List.getElem?_set]
  by_cases hij : i = j
  · subst hij; simp [hi, eq_comm]
  · simp [hij, Ne.symm hij]

theorem ZInv.init : ZInv Zmq.init := by
  constructor <;> simp [Zmq.init, Zmq.wr, Sender.infl]
  · intro i s h; cases i <;> simp at h; subst h; simp
  · intro i s h; cases i <;> simp at h; subst h; simp
  · intro i s hi h; cases i <;> simp at h; omega

theorem Zmq.wr_append (z : Zmq) (j m i : Nat) :
    (({ z with writes := z.writes ++ [(j, m)] } : Zmq).wr i) = z.wr i ++ (if j = i then [m] else []) := by
  simp [Zmq.wr, List.filter_append, List.filter_cons]
  split <;> simp_all

theorem ZInv.step {z z' : Zmq} {i : Nat} (h : ZInv z) (hstep : z.stepSender i = some z') : ZInv z' := by
  unfold Zmq.stepSender at hstep
  split at hstep
  · cases hstep
  rename_i s hs
  obtain ⟨hfc, hholder, hsock, hwsock, hwlt, ⟨s0, hs0, hq0⟩, hd⟩ := h
  split at hstep
  · -- idle
    rename_i hpc
    split at hstep
    · split at hstep
      · cases hstep
      · rename_i m q hq
        simp at hstep; subst hstep
        rename_i h0 _ ; simp at h0; subst h0
        constructor <;> dsimp only [setSender]
        · exact hfc
        · intro j t hj ht
          rw [getElem?_set_some hs] at hj
          grind
        · intro j t hj ht
          rw [getElem?_set_some hs] at hj
          grind
        · exact hwsock
        · simpa using hwlt
        · refine ⟨_, by simp [getElem?_set_some hs]; rfl, ?_⟩
          grind [Sender.infl, Zmq.wr]
        · intro j t hj0 hj
          rw [getElem?_set_some hs] at hj
          have := hd j t hj0
          grind [Zmq.wr]
    · split at hstep
      · cases hstep
      · rename_i m q hq
        simp at hstep; subst hstep
        rename_i h0 _ ; simp at h0
        constructor <;> dsimp only [setSender]
        · exact hfc
        · intro j t hj ht
          rw [getElem?_set_some hs] at hj
          grind
        · intro j t hj ht
          rw [getElem?_set_some hs] at hj
          grind
        · exact hwsock
        · simpa using hwlt
        · refine ⟨s0, by simp [h0, hs0], ?_⟩
          exact hq0
        · intro j t hj0 hj
          rw [getElem?_set_some hs] at hj
          have := hd j t hj0
          have := hd i s (by omega) hs
          grind [Zmq.wr, Sender.infl]
  · -- wantLock
    rename_i hpc
    split at hstep
    · split at hstep
      · cases hstep
      · simp at hstep; subst hstep
        exact ⟨hfc, hholder, hsock, hwsock, hwlt, ⟨s0, hs0, hq0⟩, hd⟩
    · rename_i hlock
      split at hstep
      · dsimp only at hstep
        split at hstep
        · rename_i hsk
          simp at hstep; subst hstep
          constructor <;> dsimp only [setSender]
          · exact hfc
          · intro j t hj ht
            rw [getElem?_set_some hs] at hj
            grind
          · intro j t hj ht
            exact hsk
          · exact hwsock
          · simpa using hwlt
          · by_cases h0 : i = 0
            · subst h0
              refine ⟨_, by simp [getElem?_set_some hs]; rfl, ?_⟩
              grind [Sender.infl, Zmq.wr]
            · refine ⟨s0, by simp [h0, hs0], ?_⟩
              exact hq0
          · intro j t hj0 hj
            rw [getElem?_set_some hs] at hj
            have := hd j t hj0
            have := hd i s
            grind [Zmq.wr, Sender.infl]
        · rename_i hsk
          simp at hstep; subst hstep
          constructor <;> dsimp only [setSender]
          · grind
          · intro j t hj ht
            rw [getElem?_set_some hs] at hj
            grind
          · intro j t hj ht
            rw [getElem?_set_some hs] at hj
            grind
          · exact hwsock
          · simpa using hwlt
          · by_cases h0 : i = 0
            · subst h0
              refine ⟨_, by simp [getElem?_set_some hs]; rfl, ?_⟩
              grind [Sender.infl, Zmq.wr]
            · refine ⟨s0, by simp [h0, hs0], ?_⟩
              exact hq0
          · intro j t hj0 hj
            rw [getElem?_set_some hs] at hj
            have := hd j t hj0
            have := hd i s
            grind [Zmq.wr, Sender.infl]
      · split at hstep
        · cases hstep
        · simp at hstep; subst hstep
          exact ⟨hfc, hholder, hsock, hwsock, hwlt, ⟨s0, hs0, hq0⟩, hd⟩
  · -- inFactory
    rename_i hpc
    simp at hstep; subst hstep
    constructor <;> dsimp only [setSender]
    · grind
    · intro j t hj ht
      rw [getElem?_set_some hs] at hj
      grind
    · intro j t hj ht
      first | rfl | (rw [getElem?_set_some hs] at hj; grind)
    · grind
    · simp; grind
    · by_cases h0 : i = 0
      · subst h0
        refine ⟨_, by simp [getElem?_set_some hs]; rfl, ?_⟩
        grind [Sender.infl, Zmq.wr]
      · refine ⟨s0, by simp [h0, hs0], ?_⟩
        grind [Zmq.wr]
    · intro j t hj0 hj
      rw [getElem?_set_some hs] at hj
      have := hd j t hj0
      have := hd i s
      grind [Zmq.wr, Sender.infl]
  · -- ready
    rename_i hpc
    split at hstep
    · rename_i hcur
      simp at hstep; subst hstep
      constructor <;> dsimp only [setSender]
      · grind
      · intro j t hj ht
        rw [getElem?_set_some hs] at hj
        grind
      · intro j t hj ht
        first | rfl | (rw [getElem?_set_some hs] at hj; grind)
      · grind
      · simp; grind
      · by_cases h0 : i = 0
        · subst h0
          refine ⟨_, by simp [getElem?_set_some hs]; rfl, ?_⟩
          grind [Sender.infl, Zmq.wr]
        · refine ⟨s0, by simp [h0, hs0], ?_⟩
          grind [Zmq.wr]
      · intro j t hj0 hj
        rw [getElem?_set_some hs] at hj
        have := hd j t hj0
        have := hd i s
        grind [Zmq.wr, Sender.infl]
    · rename_i m hcur
      simp at hstep; subst hstep
      constructor <;> dsimp only [setSender]
      · grind
      · intro j t hj ht
        rw [getElem?_set_some hs] at hj
        grind
      · intro j t hj ht
        first | rfl | (rw [getElem?_set_some hs] at hj; grind)
      · grind
      · simp; grind
      · by_cases h0 : i = 0
        · subst h0
          refine ⟨_, by simp [getElem?_set_some hs]; rfl, ?_⟩
          grind [Sender.infl, Zmq.wr]
        · refine ⟨s0, by simp [h0, hs0], ?_⟩
          grind [Zmq.wr]
      · intro j t hj0 hj
        rw [getElem?_set_some hs] at hj
        have := hd j t hj0
        have := hd i s
        grind [Zmq.wr, Sender.infl]
  · -- draining
    rename_i hpc
    simp at hstep; subst hstep
    constructor <;> dsimp only [setSender]
    · grind
    · intro j t hj ht
      rw [getElem?_set_some hs] at hj
      grind
    · intro j t hj ht
      first | rfl | (rw [getElem?_set_some hs] at hj; grind)
    · grind
    · simp; grind
    · by_cases h0 : i = 0
      · subst h0
        refine ⟨_, by simp [getElem?_set_some hs]; rfl, ?_⟩
        grind [Sender.infl, Zmq.wr]
      · refine ⟨s0, by simp [h0, hs0], ?_⟩
        grind [Zmq.wr]
    · intro j t hj0 hj
      rw [getElem?_set_some hs] at hj
      have := hd j t hj0
      have := hd i s
      grind [Zmq.wr, Sender.infl]

theorem Zmq.wr_eq_nil_of_forall (z : Zmq) (i : Nat) (h : ∀ w ∈ z.writes, w.1 ≠ i) : z.wr i = [] := by
  simp only [Zmq.wr, List.map_eq_nil_iff, List.filter_eq_nil_iff]
  intro w hw; simpa using h w hw

theorem getElem?_append_singleton_some {α : Type} {l : List α} {a t : α} {j : Nat} :
    (l ++ [a])[j]? = some t ↔ l[j]? = some t ∨ (j = l.length ∧ t = a) := by
  rw [List.getElem?_append]
  split
  · rename_i hlt; simp; omega
  · rename_i hge
    have : l[j]? = none := List.getElem?_eq_none (by omega)
    rw [this]
    by_cases hj : j = l.length
    · subst hj; simp [eq_comm]
    · have : j - l.length ≠ 0 := by omega
      cases hk : j - l.length with
      | zero => omega
      | succ k => simp [hj]

theorem ZInv.push {z : Zmq} {t : Sender} (h : ZInv z) (hpc : t.pc = .idle ∨ t.pc = .wantLock)
    (ht : t.infl ++ t.todo = t.orig) : ZInv { z with senders := z.senders ++ [t] } := by
  obtain ⟨hfc, hholder, hsock, hwsock, hwlt, ⟨s0, hs0, hq0⟩, hd⟩ := h
  constructor <;> dsimp only
  · exact hfc
  · intro j u hj hu
    rw [getElem?_append_singleton_some] at hj
    grind
  · intro j u hj hu
    rw [getElem?_append_singleton_some] at hj
    grind
  · exact hwsock
  · intro w hw; have := hwlt w hw; simp; omega
  · exact ⟨s0, by rw [getElem?_append_singleton_some]; exact Or.inl hs0, hq0⟩
  · intro j u hj0 hj
    rw [getElem?_append_singleton_some] at hj
    rcases hj with hj | ⟨rfl, rfl⟩
    · exact hd j u hj0 hj
    · have : z.wr z.senders.length = [] :=
        z.wr_eq_nil_of_forall _ (fun w hw => by have := hwlt w hw; omega)
      show z.wr z.senders.length ++ u.infl ++ u.todo = u.orig
      rw [this]; simpa using ht

theorem ZInv.act {z z' : Zmq} {a : ZAct} (h : ZInv z) (hact : z.act a = some z') : ZInv z' := by
  cases a with
  | step i => exact h.step hact
  | enqueue m =>
    simp [Zmq.act] at hact; subst hact
    obtain ⟨hfc, hholder, hsock, hwsock, hwlt, ⟨s0, hs0, hq0⟩, hd⟩ := h
    refine ⟨hfc, hholder, hsock, hwsock, hwlt, ⟨s0, hs0, ?_⟩, hd⟩
    show z.wr 0 ++ s0.infl ++ (z.queue ++ [m]) = z.queued ++ [m]
    rw [← hq0]; simp
  | spawn msgs =>
    simp [Zmq.act] at hact; subst hact
    exact h.push (by simp) (by simp [Sender.infl])
  | ensure =>
    simp [Zmq.act] at hact; subst hact
    exact h.push (by simp) (by simp [Sender.infl])

theorem ZInv.run {z : Zmq} (h : ZInv z) (acts : List ZAct) : ZInv (z.run acts) := by
  induction acts generalizing z with
  | nil => exact h
  | cons a as ih =>
    unfold Zmq.run
    split
    · exact ih (h.act ‹_›)
    · exact ih h

theorem ZInv.run_init (acts : List ZAct) : ZInv (Zmq.init.run acts) := ZInv.init.run acts

end Tickit
