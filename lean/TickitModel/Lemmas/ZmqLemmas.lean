/-
Helper lemmas for M9c (ZeroMQ push stream).
-/
import TickitModel.Core.Zmq

namespace Tickit

end Tickit
