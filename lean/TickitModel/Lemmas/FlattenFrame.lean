/-
Helper lemmas for C09, part 12: frame properties of a tick of one scheduler level — it touches
only the device states, update counts and schedulers of what lies at or below the level.
-/
import TickitModel.Lemmas.FlattenLemmas

namespace Tickit

/-- the tick of level `lvl` leaves everything that is not below `lvl` alone -/
structure FrameL (S : Static) (lvl : Comp) (st st' : SimSt) : Prop where
  devs : ∀ x, ¬ S.Below lvl x → agetD st'.devs x {} = agetD st.devs x {}
  count : ∀ x, ¬ S.Below lvl x → agetD st'.count x 0 = agetD st.count x 0
  sched : ∀ s, s ≠ lvl → ¬ S.Below lvl s → st'.sched s = st.sched s
  /-- only the schedulers of the level and of system components are ever written -/
  sched_dev : ∀ s, s ≠ lvl → S.isSys s = false → st'.sched s = st.sched s

theorem FrameL.refl (S : Static) (lvl : Comp) (st : SimSt) : FrameL S lvl st st :=
  ⟨fun _ _ => rfl, fun _ _ => rfl, fun _ _ _ => rfl, fun _ _ _ => rfl⟩

theorem FrameL.trans {S : Static} {lvl : Comp} {st st' st'' : SimSt} (h : FrameL S lvl st st')
    (h' : FrameL S lvl st' st'') : FrameL S lvl st st'' :=
  ⟨fun x hx => (h'.devs x hx).trans (h.devs x hx), fun x hx => (h'.count x hx).trans (h.count x hx),
    fun s h1 h2 => (h'.sched s h1 h2).trans (h.sched s h1 h2),
    fun s h1 h2 => (h'.sched_dev s h1 h2).trans (h.sched_dev s h1 h2)⟩

/-- the answer to one dispatch touches only what belongs to the addressed component -/
structure FrameA (S : Static) (c : Comp) (st st' : SimSt) : Prop where
  devs : ∀ x, ¬ S.Own c x → agetD st'.devs x {} = agetD st.devs x {}
  count : ∀ x, ¬ S.Own c x → agetD st'.count x 0 = agetD st.count x 0
  sched : ∀ s, ¬ S.Own c s → st'.sched s = st.sched s
  sched_dev : ∀ s, S.isSys s = false → st'.sched s = st.sched s

theorem FrameA.refl (S : Static) (c : Comp) (st : SimSt) : FrameA S c st st :=
  ⟨fun _ _ => rfl, fun _ _ => rfl, fun _ _ => rfl, fun _ _ => rfl⟩

theorem simWake_sched (st : SimSt) (lvl c : Comp) (callAt : Option SimTime) (s : Comp) (h : s ≠ lvl) :
    (simWake st lvl c callAt).sched s = st.sched s := by
  unfold simWake
  simp only []
  rw [SimSt.sched_upsert, if_neg (Ne.symm h)]

/-- frame of one answer, given the frame property of the nested ticks -/
theorem simAnswer_frame {S : Static} (hS : S.WF) {orc : Oracle} {fuel : Nat}
    (IH : ∀ lvl t roots inCh st st' out,
      tickLevel S orc fuel lvl t roots inCh st = .ok (st', out) → FrameL S lvl st st')
    {L : Level} {inCh : List (Port × V)} {st : SimSt} {outCh0 : List (Port × V)} {d : Dispatch V}
    {st' : SimSt} {outCh' changes : List (Port × V)} {callAt : Option SimTime}
    (h : simAnswer S orc fuel L inCh st outCh0 d = .ok (st', outCh', changes, callAt)) :
    FrameA S d.comp st st' := by
  cases d with
  | skip c t =>
    simp only [simAnswer, Except.ok.injEq, Prod.mk.injEq] at h
    obtain ⟨rfl, _⟩ := h
    exact FrameA.refl _ _ _
  | input c t ins =>
    simp only [simAnswer] at h
    split at h
    · simp only [Except.ok.injEq, Prod.mk.injEq] at h
      obtain ⟨rfl, _⟩ := h
      exact FrameA.refl _ _ _
    · split at h
      · simp only [Except.ok.injEq, Prod.mk.injEq] at h
        obtain ⟨rfl, _⟩ := h
        exact FrameA.refl _ _ _
      · split at h
        · -- a system component
          rename_i hsysc
          split at h
          · cases h
          · rename_i st2 outCh hr
            simp only [Except.ok.injEq, Prod.mk.injEq] at h
            obtain ⟨rfl, _⟩ := h
            have hf := IH _ _ _ _ _ _ _ hr
            obtain ⟨Lc, hLc, hroots⟩ := tickLevel_ok_roots hr
            obtain ⟨hLc1, hLc2⟩ := Static.level_some hLc
            have hcne : c ≠ "" := by
              have hext : pseudoExternal ∈ Lc.wiring.components :=
                hroots _ (by simp [mem_sunion])
              rcases hS.members Lc hLc1 _ hext with h' | ⟨hne, _⟩
              · rw [hS.pseudo_fresh.1] at h'; cases h'
              · rwa [hLc2] at hne
            have hnb : ∀ x, ¬ S.Own c x → ¬ S.Below c x := fun x hx hb => hx (Or.inr ⟨hcne, hb⟩)
            refine ⟨fun x hx => hf.devs x (hnb x hx), fun x hx => hf.count x (hnb x hx), ?_, ?_⟩
            · intro s hs
              have hsc : s ≠ c := fun h' => hs (Or.inl h')
              rw [hf.sched s hsc (hnb s hs), SimSt.sched_upsert, if_neg (Ne.symm hsc)]
            · intro s hs
              have hsc : s ≠ c := by
                intro h'; rw [h', hsysc] at hs; cases hs
              rw [hf.sched_dev s hsc hs, SimSt.sched_upsert, if_neg (Ne.symm hsc)]
        · -- a device
          split at h
          · cases h
          · split at h
            · cases h
            · simp only [Except.ok.injEq, Prod.mk.injEq] at h
              obtain ⟨rfl, _⟩ := h
              refine ⟨fun x hx => ?_, fun x hx => ?_, fun s _ => rfl, fun s _ => rfl⟩
              · have hxc : c ≠ x := fun h' => hx (Or.inl h'.symm)
                simp [sim_agetD_upsert, hxc]
              · have hxc : c ≠ x := fun h' => hx (Or.inl h'.symm)
                simp [sim_agetD_upsert, hxc]

theorem tickLoop_frame {S : Static} (hS : S.WF) {orc : Oracle} {fuel : Nat}
    (IH : ∀ lvl t roots inCh st st' out,
      tickLevel S orc fuel lvl t roots inCh st = .ok (st', out) → FrameL S lvl st st')
    {L : Level} (hL : L ∈ S.levels) {inCh : List (Port × V)} {st0 : SimSt} :
    ∀ (steps : Nat) (ls : LoopSt), (∀ d ∈ ls.pending, d.comp ∈ L.wiring.components) →
      FrameL S L.name st0 ls.st →
      ∀ st' out, tickLoop S orc fuel steps L inCh ls = .ok (st', out) → FrameL S L.name st0 st' := by
  intro steps
  induction steps with
  | zero =>
    intro ls _ _ st' out h
    rw [tickLoop_zero] at h; cases h
  | succ steps ih =>
    intro ls hpc hf st' out h
    cases hp : ls.pending with
    | nil =>
      rw [tickLoop_nil _ _ _ _ _ _ _ hp] at h
      split at h
      · simp only [Except.ok.injEq, Prod.mk.injEq] at h
        obtain ⟨rfl, _⟩ := h
        exact hf
      · cases h
    | cons d rest =>
      rw [tickLoop_cons _ _ _ _ _ _ _ _ _ hp] at h
      split at h
      · cases h
      · rename_i st1 outCh1 changes callAt ha
        split at h
        · cases h
        · rename_i tk' ds hprop
          obtain ⟨_, _, hsl, _, _, _⟩ := sim_propagate_eq_ok hprop
          have hdc : d.comp ∈ L.wiring.components := hpc d (by rw [hp]; simp)
          have hfa := simAnswer_frame hS IH ha
          -- what belongs to `d.comp` lies below the level
          have hown : ∀ x, S.Own d.comp x → S.Below L.name x ∨ st1 = ls.st := by
            intro x hx
            rcases hS.members L hL _ hdc with hpar | ⟨hne, hps⟩
            · exact Or.inl (hx.below hpar)
            · right
              -- the mock components change nothing
              cases d with
              | skip c t =>
                simp only [simAnswer, Except.ok.injEq, Prod.mk.injEq] at ha
                exact ha.1.symm
              | input c t ins =>
                simp only [Dispatch.comp] at hps
                simp only [simAnswer] at ha
                rcases hps with rfl | rfl
                · simp [hne] at ha
                  exact ha.1.symm
                · have : pseudoExpose ≠ pseudoExternal := by decide
                  simp [hne, this] at ha
                  exact ha.1.symm
          refine ih ⟨tk', rest ++ ds, outCh1, simWake st1 L.name d.comp callAt⟩ ?_ ?_ st' out h
          · intro d' hd'
            rcases List.mem_append.1 hd' with hd' | hd'
            · exact hpc d' (by rw [hp]; exact List.mem_cons_of_mem _ hd')
            · exact (sim_scheduleLoop_mem hsl hd').1
          · refine hf.trans ⟨fun x hx => ?_, fun x hx => ?_, fun s h1 h2 => ?_, fun s h1 h2 => ?_⟩
            · show agetD (simWake st1 L.name d.comp callAt).devs x {} = _
              by_cases ho : S.Own d.comp x
              · rcases hown x ho with hb | he
                · exact absurd hb hx
                · rw [he]; rfl
              · exact hfa.devs x ho
            · show agetD (simWake st1 L.name d.comp callAt).count x 0 = _
              by_cases ho : S.Own d.comp x
              · rcases hown x ho with hb | he
                · exact absurd hb hx
                · rw [he]; rfl
              · exact hfa.count x ho
            · rw [simWake_sched _ _ _ _ _ h1]
              by_cases ho : S.Own d.comp s
              · rcases hown s ho with hb | he
                · exact absurd hb h2
                · rw [he]
              · exact hfa.sched s ho
            · rw [simWake_sched _ _ _ _ _ h1]
              exact hfa.sched_dev s h2

/-- **frame of one tick of one scheduler level** -/
theorem tickLevel_frame {S : Static} (hS : S.WF) (orc : Oracle) :
    ∀ (fuel : Nat) (lvl : Comp) (t : SimTime) (roots : List Comp) (inCh : List (Port × V))
      (st st' : SimSt) (out : List (Port × V)),
      tickLevel S orc fuel lvl t roots inCh st = .ok (st', out) → FrameL S lvl st st' := by
  intro fuel
  induction fuel with
  | zero =>
    intro lvl t roots inCh st st' out h
    rw [tickLevel] at h; cases h
  | succ fuel IH =>
    intro lvl t roots inCh st st' out h
    rw [tickLevel.eq_2] at h
    split at h
    · cases h
    · rename_i L hLv
      split at h
      · cases h
      · rename_i tk ds hcall
        obtain ⟨hs, _, _, _⟩ := sim_call_eq_ok hcall
        obtain ⟨hL, hname⟩ := Static.level_some hLv
        subst hname
        exact tickLoop_frame hS IH hL _ ⟨tk, ds, [], st⟩
          (fun d hd => (sim_scheduleLoop_mem hs hd).1) (FrameL.refl _ _ _) st' out h

end Tickit
