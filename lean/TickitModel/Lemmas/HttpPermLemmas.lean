/-
Lemmas for the HTTP adapter path, part 2: the syntactic overlap test is exact, and on a table
without overlapping routes every sound and complete resolver serves the same route, whatever the
order of registration.
-/
import TickitModel.Lemmas.HttpLemmas

namespace Tickit
namespace Http

/-! ### overlap of templates -/

theorem segOk_x : segOk "x" = true := by decide

theorem matchPath_lit_cons (l : String) (t : List Seg) (s : String) (p : Path) :
    (matchPath (.lit l :: t) (s :: p)).isSome ↔ l = s ∧ (matchPath t p).isSome := by
  simp only [matchPath]
  by_cases h : l = s <;> simp [h]

theorem matchPath_var_cons (n : String) (t : List Seg) (s : String) (p : Path) :
    (matchPath (.var n :: t) (s :: p)).isSome ↔ segOk s = true ∧ (matchPath t p).isSome := by
  simp only [matchPath]
  by_cases h : segOk s = true <;> simp [h]

theorem matchPath_cons_nil (x : Seg) (t : List Seg) : matchPath (x :: t) [] = none := by
  cases x <;> rfl

theorem matchPath_nil_iff (p : Path) : (matchPath [] p).isSome ↔ p = [] := by
  cases p <;> simp [matchPath]

/-- the syntactic test is exact: two simple templates overlap iff some path matches both. -/
theorem templatesOverlap_iff (s t : List Seg) :
    templatesOverlap s t = true ↔ ∃ p, (matchPath s p).isSome ∧ (matchPath t p).isSome := by
  induction s generalizing t with
  | nil =>
    cases t with
    | nil => simp [templatesOverlap, matchPath_nil_iff]
    | cons y t =>
      simp only [templatesOverlap, Bool.false_eq_true, false_iff]
      rintro ⟨p, h1, h2⟩
      rw [matchPath_nil_iff] at h1
      subst h1
      simp [matchPath_cons_nil] at h2
  | cons x s ih =>
    cases t with
    | nil =>
      have : templatesOverlap (x :: s) [] = false := by cases x <;> rfl
      simp only [this, Bool.false_eq_true, false_iff]
      rintro ⟨p, h1, h2⟩
      rw [matchPath_nil_iff] at h2
      subst h2
      simp [matchPath_cons_nil] at h1
    | cons y t =>
      constructor
      · intro h
        cases x with
        | lit a =>
          cases y with
          | lit b =>
            simp only [templatesOverlap, Bool.and_eq_true, beq_iff_eq] at h
            obtain ⟨p, h1, h2⟩ := (ih t).mp h.2
            exact ⟨a :: p, (matchPath_lit_cons ..).mpr ⟨rfl, h1⟩,
              (matchPath_lit_cons ..).mpr ⟨h.1.symm, h2⟩⟩
          | var n =>
            simp only [templatesOverlap, Bool.and_eq_true] at h
            obtain ⟨p, h1, h2⟩ := (ih t).mp h.2
            exact ⟨a :: p, (matchPath_lit_cons ..).mpr ⟨rfl, h1⟩,
              (matchPath_var_cons ..).mpr ⟨h.1, h2⟩⟩
        | var n =>
          cases y with
          | lit b =>
            simp only [templatesOverlap, Bool.and_eq_true] at h
            obtain ⟨p, h1, h2⟩ := (ih t).mp h.2
            exact ⟨b :: p, (matchPath_var_cons ..).mpr ⟨h.1, h1⟩,
              (matchPath_lit_cons ..).mpr ⟨rfl, h2⟩⟩
          | var n' =>
            simp only [templatesOverlap] at h
            obtain ⟨p, h1, h2⟩ := (ih t).mp h
            exact ⟨"x" :: p, (matchPath_var_cons ..).mpr ⟨segOk_x, h1⟩,
              (matchPath_var_cons ..).mpr ⟨segOk_x, h2⟩⟩
      · rintro ⟨p, h1, h2⟩
        cases p with
        | nil => simp [matchPath_cons_nil] at h1
        | cons q p =>
          cases x with
          | lit a =>
            cases y with
            | lit b =>
              rw [matchPath_lit_cons] at h1 h2
              simp only [templatesOverlap, Bool.and_eq_true, beq_iff_eq]
              exact ⟨h1.1.trans h2.1.symm, (ih t).mpr ⟨p, h1.2, h2.2⟩⟩
            | var n =>
              rw [matchPath_lit_cons] at h1
              rw [matchPath_var_cons] at h2
              simp only [templatesOverlap, Bool.and_eq_true]
              exact ⟨by rw [h1.1]; exact h2.1, (ih t).mpr ⟨p, h1.2, h2.2⟩⟩
          | var n =>
            cases y with
            | lit b =>
              rw [matchPath_var_cons] at h1
              rw [matchPath_lit_cons] at h2
              simp only [templatesOverlap, Bool.and_eq_true]
              exact ⟨by rw [h2.1]; exact h1.1, (ih t).mpr ⟨p, h1.2, h2.2⟩⟩
            | var n' =>
              rw [matchPath_var_cons] at h1 h2
              simp only [templatesOverlap]
              exact (ih t).mpr ⟨p, h1.2, h2.2⟩

theorem methodsOverlap_iff (a b : Method) :
    methodsOverlap a b = true ↔ ∃ m, methodServes a m = true ∧ methodServes b m = true := by
  simp only [methodsOverlap, methodServes, Bool.or_eq_true, Bool.and_eq_true, beq_iff_eq]
  constructor
  · rintro ((h | ⟨h1, h2⟩) | ⟨h1, h2⟩)
    · exact ⟨a, Or.inl rfl, Or.inl h.symm⟩
    · exact ⟨"HEAD", Or.inr ⟨h1, rfl⟩, Or.inl h2⟩
    · exact ⟨"HEAD", Or.inl h1, Or.inr ⟨h2, rfl⟩⟩
  · rintro ⟨m, (h1 | ⟨h1, h1'⟩), (h2 | ⟨h2, h2'⟩)⟩
    · exact Or.inl (Or.inl (h1.trans h2.symm))
    · exact Or.inr ⟨h1.trans h2', h2⟩
    · exact Or.inl (Or.inr ⟨h1, h2.trans h1'⟩)
    · exact Or.inl (Or.inl (h1.trans h2.symm))

theorem Endpoint.accepts_isSome_iff (e : Endpoint) (m : Method) (p : Path) :
    (e.accepts m p).isSome ↔ methodServes e.method m = true ∧ (matchPath e.path p).isSome := by
  unfold Endpoint.accepts
  by_cases h : methodServes e.method m = true <;> simp [h]

/-- the syntactic test is exact: `e.overlaps f` iff some request is accepted by both. -/
theorem Endpoint.overlaps_iff (e f : Endpoint) :
    e.overlaps f = true ↔ ∃ m p, (e.accepts m p).isSome ∧ (f.accepts m p).isSome := by
  simp only [Endpoint.overlaps, Bool.and_eq_true, methodsOverlap_iff, templatesOverlap_iff,
    Endpoint.accepts_isSome_iff]
  constructor
  · rintro ⟨⟨m, h1, h2⟩, ⟨p, h3, h4⟩⟩
    exact ⟨m, p, ⟨h1, h3⟩, ⟨h2, h4⟩⟩
  · rintro ⟨m, p, ⟨h1, h3⟩, ⟨h2, h4⟩⟩
    exact ⟨⟨m, h1, h2⟩, ⟨p, h3, h4⟩⟩

theorem Endpoint.overlaps_comm (e f : Endpoint) : e.overlaps f = f.overlaps e := by
  rw [Bool.eq_iff_iff, Endpoint.overlaps_iff, Endpoint.overlaps_iff]
  constructor <;> rintro ⟨m, p, h1, h2⟩ <;> exact ⟨m, p, h2, h1⟩

theorem nonOverlapping_iff (l : List Endpoint) :
    nonOverlapping l = true ↔ l.Pairwise (fun e f => e.overlaps f = false) := by
  induction l with
  | nil => simp [nonOverlapping]
  | cons e t ih =>
    simp only [nonOverlapping, Bool.and_eq_true, List.all_eq_true, Bool.not_eq_true',
      List.pairwise_cons, ih]

theorem nonOverlapping_perm {l l' : List Endpoint} (h : l.Perm l') (hno : nonOverlapping l = true) :
    nonOverlapping l' = true := by
  rw [nonOverlapping_iff] at hno ⊢
  exact h.pairwise hno (fun {x y} hxy => by rw [Endpoint.overlaps_comm]; exact hxy)

/-- on a table without overlaps the endpoint accepting a request is unique. -/
theorem acceptor_unique (l : List Endpoint) (hno : nonOverlapping l = true) (m : Method) (p : Path)
    (e f : Endpoint) (he : e ∈ l) (hf : f ∈ l) (hea : (e.accepts m p).isSome)
    (hfa : (f.accepts m p).isSome) : e = f := by
  rw [nonOverlapping_iff] at hno
  induction hno with
  | nil => simp at he
  | @cons x t hx _ ih =>
    have hov : ∀ g, g ∈ t → (g.accepts m p).isSome → (x.accepts m p).isSome → False := by
      intro g hg hga hxa
      have h1 := hx g hg
      have h2 : x.overlaps g = true := (Endpoint.overlaps_iff x g).mpr ⟨m, p, hxa, hga⟩
      rw [h1] at h2
      exact Bool.false_ne_true h2
    rcases List.mem_cons.mp he with rfl | he'
    · rcases List.mem_cons.mp hf with rfl | hf'
      · rfl
      · exact (hov f hf' hfa hea).elim
    · rcases List.mem_cons.mp hf with rfl | hf'
      · exact (hov e he' hea hfa).elim
      · exact ih he' hf'

/-! ### what a request does, for any resolver -/

theorem mem_createRouteDefinitions {eps : List Endpoint} {r : RouteDef}
    (h : r ∈ createRouteDefinitions eps) : ∃ e ∈ eps, r = e.define := by
  unfold createRouteDefinitions at h
  obtain ⟨e, he, rfl⟩ := List.mem_map.mp h
  exact ⟨e, he, rfl⟩

/-- a sound resolver that finds a route: the trace is that of an endpoint of the table that
accepts the request. -/
theorem httpRequestWith_some {R : Resolver} (hs : R.Sound) (eps : List Endpoint) (m : Method)
    (p : Path) (r : RouteDef) (a : Args) (h : R (createRouteDefinitions eps) m p = some (r, a)) :
    ∃ e ∈ eps, r = e.define ∧ e.accepts m p = some a ∧ httpRequestWith R eps m p = e.trace a := by
  obtain ⟨hmem, hacc⟩ := hs _ _ _ _ _ h
  obtain ⟨e, he, rfl⟩ := mem_createRouteDefinitions hmem
  refine ⟨e, he, rfl, hacc, ?_⟩
  unfold httpRequestWith serve
  rw [h]
  exact e.define_serve a

theorem httpRequestWith_none {R : Resolver} (eps : List Endpoint) (m : Method)
    (p : Path) (h : R (createRouteDefinitions eps) m p = none) :
    httpRequestWith R eps m p =
      [.error (if pathKnown (createRouteDefinitions eps) p then 405 else 404)] := by
  unfold httpRequestWith serve
  rw [h]

theorem complete_none {R : Resolver} (hc : R.Complete) (eps : List Endpoint) (m : Method)
    (p : Path) (h : R (createRouteDefinitions eps) m p = none) :
    ∀ e ∈ eps, e.accepts m p = none := by
  intro e he
  have := hc _ _ _ h e.define (by unfold createRouteDefinitions; exact List.mem_map_of_mem he)
  exact this

/-- **order of registration is irrelevant for non-overlapping routes**, and so is the resolver:
any two sound and complete resolvers, on any two arrangements of the same non-overlapping table,
produce the same trace for every request. -/
theorem httpRequestWith_perm {R₁ R₂ : Resolver} (hs₁ : R₁.Sound) (hc₁ : R₁.Complete)
    (hs₂ : R₂.Sound) (hc₂ : R₂.Complete) (eps eps' : List Endpoint) (hp : eps.Perm eps')
    (hno : nonOverlapping eps = true) (m : Method) (p : Path) :
    httpRequestWith R₁ eps m p = httpRequestWith R₂ eps' m p := by
  cases h1 : R₁ (createRouteDefinitions eps) m p with
  | none =>
    have hnone := complete_none hc₁ eps m p h1
    cases h2 : R₂ (createRouteDefinitions eps') m p with
    | none =>
      rw [httpRequestWith_none eps m p h1, httpRequestWith_none eps' m p h2]
      have : pathKnown (createRouteDefinitions eps) p = pathKnown (createRouteDefinitions eps') p := by
        unfold pathKnown createRouteDefinitions
        exact (hp.map _).any_eq
      rw [this]
    | some ra =>
      obtain ⟨r, a⟩ := ra
      obtain ⟨e, he, _, hacc, _⟩ := httpRequestWith_some hs₂ eps' m p r a h2
      have := hnone e (hp.mem_iff.mpr he)
      rw [this] at hacc
      cases hacc
  | some ra =>
    obtain ⟨r, a⟩ := ra
    obtain ⟨e, he, _, hacc, htr⟩ := httpRequestWith_some hs₁ eps m p r a h1
    cases h2 : R₂ (createRouteDefinitions eps') m p with
    | none =>
      have := complete_none hc₂ eps' m p h2 e (hp.mem_iff.mp he)
      rw [this] at hacc
      cases hacc
    | some ra' =>
      obtain ⟨r', a'⟩ := ra'
      obtain ⟨e', he', _, hacc', htr'⟩ := httpRequestWith_some hs₂ eps' m p r' a' h2
      have heq : e = e' := acceptor_unique eps hno m p e e' he (hp.mem_iff.mpr he')
        (by simp [hacc]) (by simp [hacc'])
      subst heq
      rw [hacc] at hacc'
      cases hacc'
      rw [htr, htr']

theorem specificityOrdered_idx (l : List Endpoint) (h : specificityOrdered l = true) (i j : Nat)
    (ei ej : Endpoint) (hij : i < j) (hi : l[i]? = some ei) (hj : l[j]? = some ej)
    (hov : ei.overlaps ej = true) : ej.spec ≤ ei.spec := by
  induction l generalizing i j with
  | nil => simp at hi
  | cons e t ih =>
    simp only [specificityOrdered, Bool.and_eq_true, List.all_eq_true, Bool.or_eq_true,
      Bool.not_eq_true', decide_eq_true_eq] at h
    cases j with
    | zero => omega
    | succ j =>
      simp only [List.getElem?_cons_succ] at hj
      cases i with
      | zero =>
        simp only [List.getElem?_cons_zero, Option.some.injEq] at hi
        subst hi
        rcases h.1 ej (List.mem_of_getElem? hj) with h1 | h1
        · rw [h1] at hov; cases hov
        · exact h1
      | succ i =>
        simp only [List.getElem?_cons_succ] at hi
        exact ih h.2 i j (by omega) hi hj

theorem nonOverlapping_specificityOrdered (l : List Endpoint) (h : nonOverlapping l = true) :
    specificityOrdered l = true := by
  induction l with
  | nil => rfl
  | cons e t ih =>
    simp only [nonOverlapping, Bool.and_eq_true, List.all_eq_true, Bool.not_eq_true'] at h
    simp only [specificityOrdered, Bool.and_eq_true, List.all_eq_true, Bool.or_eq_true,
      Bool.not_eq_true', decide_eq_true_eq]
    exact ⟨fun f hf => Or.inl (h.1 f hf), ih h.2⟩

end Http
end Tickit
