/-
Helper lemmas for C06 at run level (`Props/C06Run.lean`): continuations of a flat run, what one
tick does to one component's pending request, strict time progress, provenance of wakeup
entries.  All declarations here live in namespace `Tickit.Callback`.
-/
import TickitModel.Lemmas.FlatDetLemmas
import TickitModel.Lemmas.FlatSyncLemmas
import TickitModel.Props.C04
import TickitModel.Props.C01Live

set_option linter.unusedSectionVars false

namespace Tickit.Callback

open Tickit

variable {Val : Type} [DecidableEq Val]

/-! ### the observation log -/

theorem mem_obsOf {st : FlatSt Val} {c : Comp} {t : SimTime} {g : List (Port × Val)} :
    (t, g) ∈ st.obsOf c ↔ (c, t, g) ∈ st.obs := by
  unfold FlatSt.obsOf
  simp only [List.mem_map, List.mem_filter, beq_iff_eq]
  constructor
  · rintro ⟨⟨c', t', g'⟩, ⟨hm, hc⟩, he⟩
    simp only at hc he
    cases he
    subst hc
    exact hm
  · intro h
    exact ⟨(c, t, g), ⟨h, rfl⟩, rfl⟩

/-! ### one tick, seen from one component -/

/-- a root of a completed tick is dispatched with an `Input` (C02). -/
theorem root_gets_input {w : Wiring} (hw : RouterOK w) {react : React Val} (hr : ReactWF react)
    {t : SimTime} {roots : List Comp} {s : TickSys Val} (hs : s.Reachable w react t roots)
    (hf : s.tk.toUpdate = []) {c : Comp} (hc : c ∈ roots) :
    ∃ ins, dispatchOf s.trace c = some (.input c t ins) := by
  have hext : c ∈ extent w roots :=
    (Det.mem_extent_iff w roots c).2 ⟨c, hc, (Wiring.dependants_closed w c).1⟩
  cases hd : dispatchOf s.trace c with
  | none => exact absurd hext ((dispatchOf_eq_none_iff_of_complete hw hr hs hf c).1 hd)
  | some d =>
    obtain ⟨_, _, hsp⟩ := dispatch_spec hw hr hs hd
    rcases hsp with ⟨ins, rfl, _⟩ | ⟨_, hnr, _⟩
    · exact ⟨ins, rfl⟩
    · exact absurd hc hnr

/-- the effect of a tick on one component's observation sequence and wakeup entry, by the kind
of dispatch the component received. -/
theorem reachable_loc_cases {w : Wiring} {dev : DevFn Val} {st0 : FlatSt Val} {m : SimTime}
    {roots : List Comp} {s : TickSys Val} (hs : s.Reachable w (st0.react dev m) m roots)
    (c : Comp) :
    ((∀ ins, dispatchOf s.trace c ≠ some (.input c m ins)) ∧
        (st0.afterTick dev s.trace).obsOf c = st0.obsOf c ∧
        alookup (st0.afterTick dev s.trace).wake c = alookup st0.wake c) ∨
    (∃ ins, dispatchOf s.trace c = some (.input c m ins) ∧
        (st0.afterTick dev s.trace).obsOf c = st0.obsOf c ++ [(m, (st0.comp c).merge ins)] ∧
        alookup (st0.afterTick dev s.trace).wake c =
          match (dev c m ((st0.comp c).merge ins)).callAt with
          | some x => some x
          | none => alookup st0.wake c) := by
  have hl := Det.loc_afterTick dev (fun c => (hs.inv.pre.count c).1) st0 c
  rcases Sync.dispatchOf_cases s.trace c with hd | ⟨t', hd⟩ | ⟨t', ins, hd⟩
  · rw [hd] at hl
    simp only [Det.loc, Det.Loc.absorb, Det.Loc.mk.injEq] at hl
    exact Or.inl ⟨fun ins h => (by rw [hd] at h; cases h), hl.2.2, hl.2.1⟩
  · rw [hd] at hl
    simp only [Det.loc, Det.Loc.absorb, Det.Loc.mk.injEq] at hl
    exact Or.inl ⟨fun ins h => (by rw [hd] at h; cases h), hl.2.2, hl.2.1⟩
  · have ht : t' = m := by
      have := (hs.inv.pre.disp_ext _ (dispatchOf_eq_some hd).1).2
      simpa [Dispatch.time] using this
    subst ht
    rw [hd] at hl
    simp only [Det.loc, Det.Loc.absorb, Det.Loc.mk.injEq] at hl
    exact Or.inr ⟨ins, hd, hl.2.2, hl.2.1⟩

/-- a completed tick either leaves `c` alone (no observation, same wakeup entry) or updates it
exactly once, at the tick's time; the update replaces the wakeup entry if the device asks for a
callback and keeps the old one otherwise. -/
theorem tickRun_cases {w : Wiring} {dev : DevFn Val} {st0 st' : FlatSt Val} {m : SimTime}
    {roots : List Comp} (h : TickRun w dev st0 m roots st') (c : Comp) :
    (st'.obsOf c = st0.obsOf c ∧ alookup st'.wake c = alookup st0.wake c) ∨
    (∃ given, st'.obsOf c = st0.obsOf c ++ [(m, given)] ∧
        alookup st'.wake c =
          match (dev c m given).callAt with
          | some x => some x
          | none => alookup st0.wake c) := by
  obtain ⟨s, hs, _, rfl⟩ := h
  rcases reachable_loc_cases hs c with ⟨_, h1, h2⟩ | ⟨ins, _, h1, h2⟩
  · exact Or.inl ⟨h1, h2⟩
  · exact Or.inr ⟨_, h1, h2⟩

/-- a root of a completed tick is updated in it. -/
theorem tickRun_root {w : Wiring} (hw : RouterOK w) {dev : DevFn Val} {st0 st' : FlatSt Val}
    {m : SimTime} {roots : List Comp} (h : TickRun w dev st0 m roots st') {c : Comp}
    (hc : c ∈ roots) :
    ∃ given, st'.obsOf c = st0.obsOf c ++ [(m, given)] ∧
        alookup st'.wake c =
          match (dev c m given).callAt with
          | some x => some x
          | none => alookup st0.wake c := by
  obtain ⟨s, hs, hf, rfl⟩ := h
  obtain ⟨ins, hins⟩ := root_gets_input hw (Det.react_wf st0 dev m) hs hf hc
  rcases reachable_loc_cases hs c with ⟨hno, _⟩ | ⟨ins', _, h1, h2⟩
  · exact absurd hins (hno ins)
  · exact ⟨_, h1, h2⟩

/-- **one scheduler step, seen from a component with a pending request for `t`**: the tick
happens at `m ≤ t`; `c` is a root iff `m = t`; and either `c` is not updated (then `m < t` and
the request is still there) or `c` is updated at `m`. -/
theorem step_cases {w : Wiring} (hw : RouterOK w) {dev : DevFn Val} {st st' : FlatSt Val}
    {cs : List Comp} {m : SimTime} (huk : UniqueKeys st.wake)
    (hf : firstWakeups st.wake = (cs, some m))
    (htick : TickRun w dev { st with wake := delWakeups st.wake cs } m cs st')
    {c : Comp} {t : SimTime} (hc : alookup st.wake c = some t) :
    m ≤ t ∧ (c ∈ cs ↔ m = t) ∧
      ((m < t ∧ st'.obsOf c = st.obsOf c ∧ alookup st'.wake c = some t) ∨
        ∃ given, st'.obsOf c = st.obsOf c ++ [(m, given)]) := by
  obtain ⟨hcs, hle, _, _⟩ := firstWakeups_spec _ huk cs m hf
  have hmt : m ≤ t := hle c t hc
  have hiff : c ∈ cs ↔ m = t := by
    rw [hcs c, hc]
    constructor
    · intro h; cases h; rfl
    · intro h; rw [h]
  refine ⟨hmt, hiff, ?_⟩
  by_cases hmem : c ∈ cs
  · obtain ⟨given, hob, _⟩ := tickRun_root hw htick hmem
    exact Or.inr ⟨given, hob⟩
  · rcases tickRun_cases htick c with ⟨hob, hwk⟩ | ⟨given, hob, _⟩
    · refine Or.inl ⟨?_, hob, ?_⟩
      · exact Int.lt_iff_le_and_ne.mpr ⟨hmt, fun h => hmem (hiff.2 h)⟩
      · rw [hwk]
        show alookup (delWakeups st.wake cs) c = some t
        rw [delWakeups_lookup _ huk, if_neg hmem, hc]
    · exact Or.inr ⟨given, hob⟩

/-! ### continuations of a run -/

/-- `FlatExt w devs n st times n' st' times'`: from the situation `(n, st, times)` (tick count,
state, tick times latest first) further callback ticks — exactly the steps of `FlatRun.tick` —
lead to `(n', st', times')`.  (The initial time `t0` of `FlatRun` plays no role in a step, so it
is not a parameter.) -/
inductive FlatExt (w : Wiring) (devs : DevSeq Val) (n : Nat) (st : FlatSt Val)
    (times : List SimTime) : Nat → FlatSt Val → List SimTime → Prop
  | refl : FlatExt w devs n st times n st times
  | tick {n' : Nat} {st' st'' : FlatSt Val} {times' : List SimTime} {cs : List Comp} {m : SimTime} :
      FlatExt w devs n st times n' st' times' → firstWakeups st'.wake = (cs, some m) →
      TickRun w (devs (n' + 1)) { st' with wake := delWakeups st'.wake cs } m cs st'' →
      FlatExt w devs n st times (n' + 1) st'' (m :: times')

/-- a continuation of a run is a run. -/
theorem FlatExt.flatRun {w : Wiring} {devs : DevSeq Val} {t0 : SimTime} {n n' : Nat}
    {st st' : FlatSt Val} {times times' : List SimTime}
    (hext : FlatExt w devs n st times n' st' times') (hrun : FlatRun w devs t0 n st times) :
    FlatRun w devs t0 n' st' times' := by
  induction hext with
  | refl => exact hrun
  | tick _ hf htick ih => exact .tick ih hf htick

theorem FlatExt.trans {w : Wiring} {devs : DevSeq Val} {n n' n'' : Nat}
    {st st' st'' : FlatSt Val} {times times' times'' : List SimTime}
    (h1 : FlatExt w devs n st times n' st' times')
    (h2 : FlatExt w devs n' st' times' n'' st'' times'') :
    FlatExt w devs n st times n'' st'' times'' := by
  induction h2 with
  | refl => exact h1
  | tick _ hf htick ih => exact .tick ih hf htick

/-- conversely every longer run is a continuation of each of its prefixes. -/
theorem flatRun_split {w : Wiring} {devs : DevSeq Val} {t0 : SimTime} {n' : Nat}
    {st' : FlatSt Val} {times' : List SimTime} (hrun : FlatRun w devs t0 n' st' times')
    (n : Nat) (hn : n ≤ n') :
    ∃ st times, FlatRun w devs t0 n st times ∧ FlatExt w devs n st times n' st' times' := by
  induction hrun with
  | initial h =>
    have : n = 0 := by omega
    subst this
    exact ⟨_, _, .initial h, .refl⟩
  | @tick n0 st0 st1 times0 cs m hprev hf htick ih =>
    by_cases hlt : n ≤ n0
    · obtain ⟨st, times, hr, he⟩ := ih hlt
      exact ⟨st, times, hr, .tick he hf htick⟩
    · have : n = n0 + 1 := by omega
      subst this
      exact ⟨_, _, .tick hprev hf htick, .refl⟩

/-- the tick count and the tick times of a continuation extend the given ones. -/
theorem FlatExt.times_eq {w : Wiring} {devs : DevSeq Val} {n n' : Nat}
    {st st' : FlatSt Val} {times times' : List SimTime}
    (hext : FlatExt w devs n st times n' st' times') :
    ∃ newT, times' = newT ++ times ∧ n' = n + newT.length := by
  induction hext with
  | refl => exact ⟨[], rfl, rfl⟩
  | @tick n' st' st'' times' cs m _ _ _ ih =>
    obtain ⟨newT, h1, h2⟩ := ih
    exact ⟨m :: newT, by rw [h1]; rfl, by rw [h2]; rfl⟩

/-- observation sequences only grow along a continuation. -/
theorem FlatExt.obs_extends {w : Wiring} {devs : DevSeq Val} {n n' : Nat}
    {st st' : FlatSt Val} {times times' : List SimTime}
    (hext : FlatExt w devs n st times n' st' times') (c : Comp) :
    ∃ new, st'.obsOf c = st.obsOf c ++ new := by
  induction hext with
  | refl => exact ⟨[], by simp⟩
  | @tick n' st' st'' times' cs m _ _ htick ih =>
    obtain ⟨new, hnew⟩ := ih
    rcases tickRun_cases htick c with ⟨ho, _⟩ | ⟨g, ho, _⟩
    · exact ⟨new, ho.trans hnew⟩
    · refine ⟨new ++ [(m, g)], ?_⟩
      rw [ho]
      show st'.obsOf c ++ _ = _
      rw [hnew, List.append_assoc]

theorem flatRun_times_length {w : Wiring} {devs : DevSeq Val} {t0 : SimTime} {n : Nat}
    {st : FlatSt Val} {times : List SimTime} (hrun : FlatRun w devs t0 n st times) :
    times.length = n + 1 := by
  induction hrun with
  | initial _ => rfl
  | tick _ _ _ ih => simp [ih]

/-! ### R1: a pending request along a continuation -/

/-- after the continuation `c`'s request for `t` is still pending and untouched: `c` has not
been updated, the entry is still there, and every tick of the continuation happened strictly
before `t`. -/
structure StillPending (st : FlatSt Val) (times : List SimTime) (st' : FlatSt Val)
    (times' : List SimTime) (c : Comp) (t : SimTime) : Prop where
  no_new_obs : st'.obsOf c = st.obsOf c
  pending : alookup st'.wake c = some t
  earlier : ∃ newT, times' = newT ++ times ∧ ∀ m ∈ newT, m < t

/-- the continuation contains an update of `c`; the first one happens in the tick from
`(k, stA, timesA)` to `stB`: up to `stA` the request was pending and untouched, that tick is at
`t1 ≤ t`, `c` is one of its roots iff `t1 = t`, it gives `c` exactly one observation (at `t1`),
which is the first new observation of `c` in the final state. -/
def FirstUpdate (w : Wiring) (devs : DevSeq Val) (n : Nat) (st : FlatSt Val)
    (times : List SimTime) (n' : Nat) (st' : FlatSt Val) (times' : List SimTime) (c : Comp)
    (t : SimTime) : Prop :=
  ∃ (k : Nat) (stA stB : FlatSt Val) (timesA : List SimTime) (cs : List Comp) (t1 : SimTime)
    (given : List (Port × Val)) (rest : List (SimTime × List (Port × Val))),
    FlatExt w devs n st times k stA timesA ∧ StillPending st times stA timesA c t ∧
    firstWakeups stA.wake = (cs, some t1) ∧
    TickRun w (devs (k + 1)) { stA with wake := delWakeups stA.wake cs } t1 cs stB ∧
    FlatExt w devs (k + 1) stB (t1 :: timesA) n' st' times' ∧
    t1 ≤ t ∧ (c ∈ cs ↔ t1 = t) ∧
    stB.obsOf c = st.obsOf c ++ [(t1, given)] ∧
    st'.obsOf c = st.obsOf c ++ (t1, given) :: rest

theorem not_both {w : Wiring} {devs : DevSeq Val} {n n' : Nat} {st st' : FlatSt Val}
    {times times' : List SimTime} {c : Comp} {t : SimTime}
    (h1 : StillPending st times st' times' c t)
    (h2 : FirstUpdate w devs n st times n' st' times' c t) : False := by
  obtain ⟨_, _, _, _, _, _, _, rest, _, _, _, _, _, _, _, _, hob⟩ := h2
  have := congrArg List.length (h1.no_new_obs.symm.trans hob)
  simp at this

theorem pending_or_served {w : Wiring} (hw : RouterOK w) {devs : DevSeq Val} {t0 : SimTime}
    {n n' : Nat} {st st' : FlatSt Val} {times times' : List SimTime}
    (hrun : FlatRun w devs t0 n st times) {c : Comp} {t : SimTime}
    (hc : alookup st.wake c = some t) (hext : FlatExt w devs n st times n' st' times') :
    StillPending st times st' times' c t ∨ FirstUpdate w devs n st times n' st' times' c t := by
  induction hext with
  | refl => exact Or.inl ⟨rfl, hc, [], rfl, by simp⟩
  | @tick n' st' st'' times' cs m hpre hf htick ih =>
    have hrun' := hpre.flatRun hrun
    rcases ih with hp | ⟨k, stA, stB, timesA, cs1, t1, given, rest, hA, hpA, hfA, htA, hB, hle,
      hroot, hobB, hob'⟩
    · obtain ⟨hmt, hiff, hcase⟩ :=
        step_cases hw (Det.flatRun_uniqueKeys hrun') hf htick hp.pending
      rcases hcase with ⟨hlt, hob, hwk⟩ | ⟨given, hob⟩
      · left
        obtain ⟨newT, hti, hall⟩ := hp.earlier
        refine ⟨hob.trans hp.no_new_obs, hwk, m :: newT, by rw [hti]; rfl, ?_⟩
        intro x hx
        rcases List.mem_cons.1 hx with rfl | hx
        · exact hlt
        · exact hall x hx
      · right
        exact ⟨n', st', st'', times', cs, m, given, [], hpre, hp, hf, htick, .refl, hmt, hiff,
          by rw [hob, hp.no_new_obs], by rw [hob, hp.no_new_obs]⟩
    · right
      have : ∃ rest', st''.obsOf c = st.obsOf c ++ (t1, given) :: rest' := by
        rcases tickRun_cases htick c with ⟨ho, _⟩ | ⟨g, ho, _⟩
        · exact ⟨rest, ho.trans hob'⟩
        · refine ⟨rest ++ [(m, g)], ?_⟩
          rw [ho]
          show st'.obsOf c ++ _ = _
          rw [hob']
          simp
      obtain ⟨rest', hr'⟩ := this
      exact ⟨k, stA, stB, timesA, cs1, t1, given, rest', hA, hpA, hfA, htA, hB.tick hf htick,
        hle, hroot, hobB, hr'⟩

/-! ### R3: strict progress of time and continuability -/

/-- callbacks are requested strictly in the future -/
def StrictFuture (devs : DevSeq Val) : Prop :=
  ∀ k c t ins x, ((devs k) c t ins).callAt = some x → t < x

theorem StrictFuture.noPast {devs : DevSeq Val} (h : StrictFuture devs) : NoPastCallbacks devs :=
  fun k c t ins x hx => Int.le_of_lt (h k c t ins x hx)

/-- after a tick at `t` every wakeup is an old one or strictly after `t`. -/
theorem tickRun_wake_gt {w : Wiring} {dev : DevFn Val} {st st' : FlatSt Val} {t : SimTime}
    {roots : List Comp} (hfut : ∀ c t ins x, (dev c t ins).callAt = some x → t < x)
    (hrun : TickRun w dev st t roots st') {c : Comp} {x : SimTime}
    (h : alookup st'.wake c = some x) : alookup st.wake c = some x ∨ t < x := by
  obtain ⟨s, hs, _, rfl⟩ := hrun
  rcases Det.wake_afterTick_cases h with h | ⟨t', ins, g, hm, hx⟩
  · exact Or.inl h
  · have := (hs.inv.pre.disp_ext _ hm).2
    simp only [Dispatch.time] at this
    subst this
    exact Or.inr (hfut _ _ _ _ hx)

/-- under `StrictFuture` every pending wakeup is strictly after the latest tick time. -/
theorem flatRun_wake_gt {w : Wiring} {devs : DevSeq Val} (hfut : StrictFuture devs)
    {t0 : SimTime} {n : Nat} {st : FlatSt Val} {times : List SimTime}
    (hrun : FlatRun w devs t0 n st times) :
    ∃ tl rest, times = tl :: rest ∧ ∀ c t, alookup st.wake c = some t → tl < t := by
  cases hrun with
  | initial h =>
    refine ⟨t0, [], rfl, fun c t hc => ?_⟩
    rcases tickRun_wake_gt (hfut 0) h hc with h' | h'
    · simp [alookup] at h'
    · exact h'
  | @tick n st0 _ times0 cs m hprev hf h =>
    refine ⟨m, times0, rfl, fun c t hc => ?_⟩
    rcases tickRun_wake_gt (hfut (n + 1)) h hc with h' | h'
    · exact served_then_later _ (Det.flatRun_uniqueKeys hprev) cs m hf c t h'
    · exact h'

/-- under `StrictFuture` the next tick is strictly later than the latest one. -/
theorem next_tick_later {w : Wiring} {devs : DevSeq Val} (hfut : StrictFuture devs)
    {t0 : SimTime} {n : Nat} {st : FlatSt Val} {tl : SimTime} {rest : List SimTime}
    (hrun : FlatRun w devs t0 n st (tl :: rest)) {cs : List Comp} {m : SimTime}
    (hf : firstWakeups st.wake = (cs, some m)) : tl < m := by
  obtain ⟨tl', rest', hti, hgt⟩ := flatRun_wake_gt hfut hrun
  cases hti
  obtain ⟨_, _, ⟨c, hc⟩, _⟩ := firstWakeups_spec _ (Det.flatRun_uniqueKeys hrun) cs m hf
  exact hgt c m hc

/-- under `StrictFuture`, `k` further ticks advance the time by at least `k`. -/
theorem ext_head_ge {w : Wiring} {devs : DevSeq Val} (hfut : StrictFuture devs)
    {t0 : SimTime} {n n' : Nat} {st st' : FlatSt Val} {tl : SimTime} {rest times' : List SimTime}
    (hrun : FlatRun w devs t0 n st (tl :: rest))
    (hext : FlatExt w devs n st (tl :: rest) n' st' times') :
    ∃ (k : Nat) (tl' : SimTime) (rest' : List SimTime), n' = n + k ∧ times' = tl' :: rest' ∧
      tl + (k : Int) ≤ tl' := by
  induction hext with
  | refl => exact ⟨0, tl, rest, rfl, rfl, by simp⟩
  | @tick n' st' st'' times' cs m hpre hf _ ih =>
    obtain ⟨k, tl', rest', hn, hti, hle⟩ := ih
    subst hti
    have hlt : tl' < m := next_tick_later hfut (hpre.flatRun hrun) hf
    refine ⟨k + 1, m, tl' :: rest', by omega, rfl, ?_⟩
    have h1 : tl + (k : Int) + 1 ≤ m := Int.add_one_le_of_lt (Int.lt_of_le_of_lt hle hlt)
    have h2 : ((k + 1 : Nat) : Int) = (k : Int) + 1 := by simp
    rw [h2, ← Int.add_assoc]
    exact h1

/-- only components of the wiring ever have a wakeup entry. -/
theorem wake_keys_components {w : Wiring} {devs : DevSeq Val} {t0 : SimTime} {n : Nat}
    {st : FlatSt Val} {times : List SimTime} (hrun : FlatRun w devs t0 n st times) :
    ∀ c ∈ akeys st.wake, c ∈ w.components := by
  induction hrun with
  | initial htick =>
    obtain ⟨s, hs, hf, rfl⟩ := htick
    intro c hc
    rcases Sync.wake_afterTick _ _ _ hc with h | ⟨d, hm, rfl⟩
    · simp [akeys] at h
    · exact Sync.extent_sub_components (fun r h => h) (hs.inv.pre.disp_ext d hm).1
  | @tick n st st' times cs m _ hfw htick ih =>
    obtain ⟨s, hs, hf, rfl⟩ := htick
    intro c hc
    rcases Sync.wake_afterTick _ _ _ hc with h | ⟨d, hm, rfl⟩
    · exact ih c (Sync.mem_akeys_delWakeups h)
    · exact Sync.extent_sub_components (fun r h => ih r (Sync.firstWakeups_sub hfw r h))
        (hs.inv.pre.disp_ext d hm).1

/-- while some request is pending the scheduler can take its next step, and the tick it starts
can be completed. -/
theorem can_step {w : Wiring} (hacyc : w.Acyclic) {devs : DevSeq Val} {t0 : SimTime} {n : Nat}
    {st : FlatSt Val} {times : List SimTime} (hrun : FlatRun w devs t0 n st times)
    (hne : st.wake ≠ []) :
    ∃ cs m st', firstWakeups st.wake = (cs, some m) ∧
      TickRun w (devs (n + 1)) { st with wake := delWakeups st.wake cs } m cs st' := by
  have hsome : (firstWakeups st.wake).2 ≠ none := fun h => hne ((firstWakeups_none _).1 h)
  obtain ⟨m, hm⟩ := Option.ne_none_iff_exists'.1 hsome
  have hf : firstWakeups st.wake = ((firstWakeups st.wake).1, some m) := by rw [← hm]
  have hroots := Sync.hroots_of_components (w := w) (roots := (firstWakeups st.wake).1)
    (fun r hr => wake_keys_components hrun r (Sync.firstWakeups_sub hf r hr))
  obtain ⟨st', h⟩ := tickRun_exists w hacyc (devs (n + 1))
    { st with wake := delWakeups st.wake (firstWakeups st.wake).1 } m _ hroots
  exact ⟨_, m, st', hf, h⟩

theorem wake_ne_nil_of_lookup {wk : Wakeups} {c : Comp} {t : SimTime}
    (h : alookup wk c = some t) : wk ≠ [] := by
  intro hn
  rw [hn] at h
  simp [alookup] at h

/-- for every `k` there is a continuation that either has `k` further ticks or contains an
update of `c` (whose request for `t` was pending). -/
theorem ext_exists {w : Wiring} (hw : RouterOK w) (hacyc : w.Acyclic) {devs : DevSeq Val}
    {t0 : SimTime} {n : Nat} {st : FlatSt Val} {times : List SimTime}
    (hrun : FlatRun w devs t0 n st times) {c : Comp} {t : SimTime}
    (hc : alookup st.wake c = some t) (k : Nat) :
    ∃ n' st' times', FlatExt w devs n st times n' st' times' ∧
      (n' = n + k ∨ FirstUpdate w devs n st times n' st' times' c t) := by
  induction k with
  | zero => exact ⟨n, st, times, .refl, Or.inl rfl⟩
  | succ k ih =>
    obtain ⟨n', st', times', hext, hcase⟩ := ih
    rcases hcase with hn | hfu
    · rcases pending_or_served hw hrun hc hext with hp | hfu
      · obtain ⟨cs, m, st'', hf, htick⟩ :=
          can_step hacyc (hext.flatRun hrun) (wake_ne_nil_of_lookup hp.pending)
        exact ⟨n' + 1, st'', m :: times', .tick hext hf htick, Or.inl (by omega)⟩
      · exact ⟨n', st', times', hext, Or.inr hfu⟩
    · exact ⟨n', st', times', hext, Or.inr hfu⟩

/-! ### R4: where a wakeup entry comes from -/

/-- the entry `(c, x)` was requested by an update of `c` in tick `k ≤ n` (at that tick's time,
with the inputs logged there), and every later update of `c` (tick `k' > k`) asked for no
callback — so the entry of tick `k` was kept. -/
def Requested (devs : DevSeq Val) (n : Nat) (times : List SimTime)
    (obsC : List (SimTime × List (Port × Val))) (c : Comp) (x : SimTime) : Prop :=
  ∃ (k : Nat) (t_req : SimTime) (ins : List (Port × Val))
    (pre post : List (SimTime × List (Port × Val))),
    k ≤ n ∧ times[n - k]? = some t_req ∧ obsC = pre ++ (t_req, ins) :: post ∧
    ((devs k) c t_req ins).callAt = some x ∧
    ∀ o ∈ post, ∃ k', k < k' ∧ k' ≤ n ∧ times[n - k']? = some o.1 ∧
      ((devs k') c o.1 o.2).callAt = none

theorem Requested.shift {devs : DevSeq Val} {n : Nat} {times : List SimTime}
    {obsC : List (SimTime × List (Port × Val))} {c : Comp} {x : SimTime}
    (h : Requested devs n times obsC c x) (m : SimTime) :
    Requested devs (n + 1) (m :: times) obsC c x := by
  obtain ⟨k, t_req, ins, pre, post, hk, hti, hob, hcall, hpost⟩ := h
  refine ⟨k, t_req, ins, pre, post, by omega, ?_, hob, hcall, ?_⟩
  · have : n + 1 - k = (n - k) + 1 := by omega
    rw [this, List.getElem?_cons_succ]
    exact hti
  · intro o ho
    obtain ⟨k', h1, h2, h3, h4⟩ := hpost o ho
    refine ⟨k', h1, by omega, ?_, h4⟩
    have : n + 1 - k' = (n - k') + 1 := by omega
    rw [this, List.getElem?_cons_succ]
    exact h3

theorem Requested.shift_append {devs : DevSeq Val} {n : Nat} {times : List SimTime}
    {obsC : List (SimTime × List (Port × Val))} {c : Comp} {x : SimTime}
    (h : Requested devs n times obsC c x) (m : SimTime) (g : List (Port × Val))
    (hnone : ((devs (n + 1)) c m g).callAt = none) :
    Requested devs (n + 1) (m :: times) (obsC ++ [(m, g)]) c x := by
  obtain ⟨k, t_req, ins, pre, post, hk, hti, hob, hcall, hpost⟩ := h
  refine ⟨k, t_req, ins, pre, post ++ [(m, g)], by omega, ?_, by rw [hob]; simp, hcall, ?_⟩
  · have : n + 1 - k = (n - k) + 1 := by omega
    rw [this, List.getElem?_cons_succ]
    exact hti
  · intro o ho
    rcases List.mem_append.1 ho with ho | ho
    · obtain ⟨k', h1, h2, h3, h4⟩ := hpost o ho
      refine ⟨k', h1, by omega, ?_, h4⟩
      have : n + 1 - k' = (n - k') + 1 := by omega
      rw [this, List.getElem?_cons_succ]
      exact h3
    · rw [List.mem_singleton] at ho
      subst ho
      exact ⟨n + 1, by omega, Nat.le_refl _, by simp, hnone⟩

/-- every wakeup entry of every state of a run was requested (see `Requested`). -/
theorem wake_requested {w : Wiring} {devs : DevSeq Val} {t0 : SimTime} {n : Nat}
    {st : FlatSt Val} {times : List SimTime} (hrun : FlatRun w devs t0 n st times) (c : Comp)
    (x : SimTime) (hx : alookup st.wake c = some x) :
    Requested devs n times (st.obsOf c) c x := by
  induction hrun generalizing x with
  | @initial st htick =>
    rcases tickRun_cases htick c with ⟨_, hwk⟩ | ⟨g, hob, hwk⟩
    · rw [hwk] at hx
      simp [alookup] at hx
    · rw [hwk] at hx
      cases hcall : ((devs 0) c t0 g).callAt with
      | none =>
        rw [hcall] at hx
        simp [alookup] at hx
      | some x' =>
        rw [hcall] at hx
        cases hx
        exact ⟨0, t0, g, [], [], Nat.le_refl _, by simp, by rw [hob]; rfl, hcall, by simp⟩
  | @tick n st st' times cs m hprev hf htick ih =>
    have huk := Det.flatRun_uniqueKeys hprev
    have hold : ∀ y, alookup (delWakeups st.wake cs) c = some y → alookup st.wake c = some y := by
      intro y hy
      rw [delWakeups_lookup _ huk] at hy
      split at hy
      · cases hy
      · exact hy
    rcases tickRun_cases htick c with ⟨hob, hwk⟩ | ⟨g, hob, hwk⟩
    · rw [hwk] at hx
      rw [hob]
      exact (ih x (hold x hx)).shift m
    · rw [hwk] at hx
      rw [hob]
      cases hcall : ((devs (n + 1)) c m g).callAt with
      | none =>
        rw [hcall] at hx
        exact (ih x (hold x hx)).shift_append m g hcall
      | some x' =>
        rw [hcall] at hx
        cases hx
        exact ⟨n + 1, m, g, st.obsOf c, [], Nat.le_refl _, by simp, rfl, hcall, by simp⟩

end Tickit.Callback
