/-
Helper lemmas for C12 with processing costs (`Props/C12Cost.lean`), part 3:
tick times never decrease along `masterRunC` when no device asks to be called back in the past
(`masterRun_mono` of `Lemmas/TimeMonoLemmas.lean`, with costs and mid-tick stimuli).

Core Lean only.
-/
import TickitModel.Lemmas.CostRun

namespace Tickit
namespace CostRun

open TimeMono Pacing

/-- handling the stimuli in the middle of a tick keeps the master `OK`; the ticker time and the
observations are untouched. -/
theorem midTick_ok (S : Static) (fuel : Nat) (s : Speed) (e : Int) (m : MasterSt)
    (stims : List Stim) (h : m.OK) :
    (midTick S fuel s e m stims).1.OK ∧ (midTick S fuel s e m stims).1.tickerTime = m.tickerTime ∧
    (midTick S fuel s e m stims).1.sim.obs = m.sim.obs := by
  induction stims generalizing m with
  | nil => exact ⟨h, rfl, rfl⟩
  | cons st rest ih =>
    rw [midTick]
    split
    · obtain ⟨hok, htt, hobs⟩ := stimStep_ok S fuel s m st h
      rw [stimStepC_eq]
      obtain ⟨h1, h2, h3⟩ := ih (stimStep S fuel s m st) hok
      exact ⟨h1, by rw [h2, htt], by rw [h3, hobs]⟩
    · exact ⟨h, rfl, rfl⟩

/-- the master after a tick that left the simulation well-formed and no wakeup before its time -/
theorem endTick_ok (S : Static) (fuel : Nat) (s : Speed) (sim : SimSt) (w : SimTime) (d e : Int)
    (stims : List Stim) (hg : sim.Good) (hw : ∀ x ∈ (sim.sched "").wake, w ≤ x.2) :
    (endTick S fuel s sim w d e stims).1.OK ∧ (endTick S fuel s sim w d e stims).1.tickerTime = w ∧
    (endTick S fuel s sim w d e stims).1.sim.obs = sim.obs := by
  obtain ⟨h1, h2, h3⟩ := midTick_ok S fuel s e
    { sim := sim, tickerTime := w, lastReal := d, now := d } stims ⟨hg, hw, Int.le_refl _⟩
  exact ⟨⟨h1.good, fun x hx => h1.wake_ge x hx, Int.le_refl _⟩, h2, h3⟩

/-- what is needed of a tick to apply `endTick_ok`, from `tickLevel_ok` -/
theorem endTick_ext (S : Static) (fuel : Nat) (s : Speed) (sim : SimSt) (w : SimTime) (d e : Int)
    (stims : List Stim) :
    ∃ new : List Obs, (endTick S fuel s sim w d e stims).1.sim.obs = sim.obs ++ new := by
  refine ⟨[], ?_⟩
  rw [List.append_nil]
  have : ∀ (m : MasterSt) (stims : List Stim), (midTick S fuel s e m stims).1.sim.obs = m.sim.obs := by
    intro m stims
    induction stims generalizing m with
    | nil => rfl
    | cons st rest ih =>
      rw [midTick]
      split
      · rw [ih, stimStepC_eq, stimStep_obs]
      · rfl
  exact this _ stims

/-- the initial tick (with its cost and the stimuli inside it) leaves the master `OK` -/
theorem masterInitialC_ok (S : Static) (orc : Oracle) (fuel : Nat) (s : Speed) (cost : Nat → Nat)
    (t0 : SimTime) (now : Int) (stims0 stims : List Stim) (m : MasterSt) (tr : TickRec)
    (h : masterInitialC S orc fuel s cost t0 now stims0 = .ok (m, tr, stims))
    (hnp : RunNoPast orc m.sim) : m.OK ∧ tr.time = m.tickerTime := by
  unfold masterInitialC at h
  split at h
  · cases h
  · simp only [] at h
    split at h
    · cases h
    · rename_i st out hr
      simp only [Except.ok.injEq, Prod.mk.injEq] at h
      obtain ⟨rfl, rfl, rfl⟩ := h
      obtain ⟨_, hlev⟩ := tickLevel_ok S orc _ _ _ _ _ _ _ _ hr
      obtain ⟨hg, hnew⟩ := hlev good_empty
      have hx : st.Ext (endTick S fuel s st t0 now (now + cost 0) stims0).1.sim :=
        endTick_ext S fuel s st t0 now (now + cost 0) stims0
      have hnew := hnew (RunNoPast.of_ext hx hnp)
      obtain ⟨h1, h2, _⟩ := endTick_ok S fuel s st t0 now (now + cost 0) stims0 hg
        (fun e he => by
          rcases hnew "" e he with h1 | h1
          · cases h1
          · exact h1)
      exact ⟨h1, h2.symm⟩

/-- **the whole run with costs**: observations only grow; and if the master starts in an `OK`
state and the ticks recorded so far are in order and not after the ticker time, so are all ticks
of the run. -/
theorem masterRunC_mono (S : Static) (orc : Oracle) (fuel : Nat) (sp : Speed) (cost : Nat → Nat) :
    ∀ (steps nTicks : Nat) (m : MasterSt) (stims : List Stim) (acc : List TickRec)
      (m2 : MasterSt) (ticks : List TickRec),
      masterRunC S orc fuel sp cost steps nTicks m stims acc = .ok (m2, ticks) →
      m.sim.Ext m2.sim ∧
      (m.OK → RunNoPast orc m2.sim →
        (acc.map (·.time)).Pairwise (· ≤ ·) → (∀ x ∈ acc, x.time ≤ m.tickerTime) →
        (ticks.map (·.time)).Pairwise (· ≤ ·) ∧ (∀ x ∈ ticks, x.time ≤ m2.tickerTime) ∧ m2.OK) := by
  intro steps
  induction steps with
  | zero =>
    intro nTicks m stims acc m2 ticks h
    rw [masterRunC] at h
    simp only [Except.ok.injEq, Prod.mk.injEq] at h
    obtain ⟨rfl, rfl⟩ := h
    exact ⟨SimSt.Ext.refl _, fun hok _ hs hle => ⟨hs, hle, hok⟩⟩
  | succ steps ih =>
    intro nTicks m stims acc m2 ticks h
    cases nTicks with
    | zero =>
      rw [masterRunC_zero_ticks] at h
      simp only [Except.ok.injEq, Prod.mk.injEq] at h
      obtain ⟨rfl, rfl⟩ := h
      exact ⟨SimSt.Ext.refl _, fun hok _ hs hle => ⟨hs, hle, hok⟩⟩
    | succ nTicks =>
      rw [masterRunC_unfold] at h
      split at h
      · -- a stimulus first
        rename_i st rest _
        rw [stimStepC_eq] at h
        obtain ⟨hx, hrest⟩ := ih _ _ _ _ _ _ h
        refine ⟨?_, fun hok hnp hs hle => ?_⟩
        · obtain ⟨new, hnew⟩ := hx
          exact ⟨new, by rw [hnew, stimStep_obs]⟩
        · obtain ⟨hok', htt, _⟩ := stimStep_ok S fuel sp m st hok
          exact hrest hok' hnp hs (by rw [htt]; exact hle)
      · split at h
        · -- the next tick
          rename_i comps w hfw
          split at h
          · cases h
          · rename_i sim2 out hr
            rw [delMasterC_eq] at hr
            obtain ⟨hx, hrest⟩ := ih _ _ _ _ _ _ h
            obtain ⟨hx1, hlev⟩ := tickLevel_ok S orc _ _ _ _ _ _ _ _ hr
            have hx2 : sim2.Ext (endTick S fuel sp sim2 w (dueReal m sp w)
                (dueReal m sp w + cost acc.length) stims).1.sim := endTick_ext _ _ _ _ _ _ _ _
            refine ⟨SimSt.Ext.trans hx1 (SimSt.Ext.trans hx2 hx), fun hok hnp hs hle => ?_⟩
            obtain ⟨hgd, _, hdel⟩ := delMaster_ok m.sim comps hok.good
            obtain ⟨hg2, hnew⟩ := hlev hgd
            have hnew := hnew (RunNoPast.of_ext (SimSt.Ext.trans hx2 hx) hnp)
            have hsnd : (firstWakeups (m.sim.sched "").wake).2 = some w := by rw [hfw]
            obtain ⟨⟨e0, he0, he0w⟩, hmin⟩ := firstWakeups_mem _ _ hsnd
            have htw : m.tickerTime ≤ w := he0w ▸ hok.wake_ge e0 he0
            obtain ⟨hok2, htt2, _⟩ := endTick_ok S fuel sp sim2 w (dueReal m sp w)
              (dueReal m sp w + cost acc.length) stims hg2 (fun e he => by
                rcases hnew "" e he with h1 | h1
                · exact hmin e (hdel "" e h1)
                · exact h1)
            refine hrest hok2 hnp ?_ ?_
            · rw [List.map_append, List.pairwise_append]
              refine ⟨hs, by simp, ?_⟩
              intro a ha b hb
              obtain ⟨x, hx', rfl⟩ := List.mem_map.1 ha
              simp only [List.map_cons, List.map_nil, List.mem_singleton] at hb
              subst hb
              exact Int.le_trans (hle x hx') htw
            · rw [htt2]
              intro x hx'
              rcases List.mem_append.1 hx' with hx' | hx'
              · exact Int.le_trans (hle x hx') htw
              · simp only [List.mem_singleton] at hx'
                subst hx'
                exact Int.le_refl _
        · -- nothing left to do
          simp only [Except.ok.injEq, Prod.mk.injEq] at h
          obtain ⟨rfl, rfl⟩ := h
          exact ⟨SimSt.Ext.refl _, fun hok _ hs hle => ⟨hs, hle, hok⟩⟩

/-- tick times never decrease from the initial tick on, with costs and stimuli, provided no
device asks to be called back in the past. -/
theorem simC_time_monotone (S : Static) (orc : Oracle) (fuel : Nat) (t0 : SimTime) (now0 : Int)
    (sp : Speed) (cost : Nat → Nat) (steps nTicks : Nat) (stims0 stims : List Stim)
    (m m2 : MasterSt) (tr : TickRec) (ticks : List TickRec)
    (h : masterInitialC S orc fuel sp cost t0 now0 stims0 = .ok (m, tr, stims))
    (h2 : masterRunC S orc fuel sp cost steps nTicks m stims [tr] = .ok (m2, ticks))
    (hnp : RunNoPast orc m2.sim) :
    (ticks.map (·.time)).Pairwise (· ≤ ·) := by
  obtain ⟨hx, hrun⟩ := masterRunC_mono S orc fuel sp cost steps nTicks m stims [tr] m2 ticks h2
  obtain ⟨hok, htr⟩ := masterInitialC_ok S orc fuel sp cost t0 now0 stims0 stims m tr h
    (RunNoPast.of_ext hx hnp)
  exact (hrun hok hnp (by simp)
    (by intro x hx'; simp only [List.mem_singleton] at hx'; subst hx'; exact Int.le_of_eq htr)).1

end CostRun
end Tickit
