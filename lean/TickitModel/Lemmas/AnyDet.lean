/-
Any-order nested tick, part 6: determinism.  Two executions of the same tick of a level — any answer
orders at the level and at every level below, started in states that are equivalent on what lies
at or below the level — end in states that are equivalent there, with output changes that are
equal as mappings.
-/
import TickitModel.Lemmas.AnyInv

namespace Tickit

/-- `x` is the level `lvl` itself or lies below it -/
def AtOrBelow (S : Static) (lvl x : Comp) : Prop := x = lvl ∨ S.Below lvl x

/-- the determinism statement for ONE execution `r` of a tick of level `lvl`: every other
execution of the same tick from an equivalent state ends equivalently -/
def LevelDet (S : Static) (orc : Oracle) : LevelRel := fun lvl t roots inCh st r =>
  ∀ (roots' : List Comp) (inCh' : List (Port × V)) (st' : SimSt) (r' : SimSt × List (Port × V)),
    (∀ c, c ∈ roots ↔ c ∈ roots') → MapEq inCh inCh' → (akeys inCh).Nodup → (akeys inCh').Nodup →
    EqOn (AtOrBelow S lvl) st st' →
    TickLevelAny S orc lvl t roots' inCh' st' r' →
    EqOn (AtOrBelow S lvl) r.1 r'.1 ∧ MapEq r.2 r'.2

/-! ### small congruences -/

theorem isEmpty_congr {α : Type} {l1 l2 : List α} (h : ∀ c, c ∈ l1 ↔ c ∈ l2) :
    l1.isEmpty = l2.isEmpty := by
  cases l1 with
  | nil =>
    cases l2 with
    | nil => rfl
    | cons b l2 => exact absurd ((h b).2 (by simp)) (by simp)
  | cons a l1 =>
    cases l2 with
    | nil => exact absurd ((h a).1 (by simp)) (by simp)
    | cons b l2 => rfl

theorem sysCallAt_congr {s1 s2 : SimSt} {c : Comp} (h : (s1.sched c).Equiv (s2.sched c)) (t : SimTime) :
    sysCallAt s1 c t = sysCallAt s2 c t := by
  unfold sysCallAt
  simp only []
  rw [isEmpty_congr h.ints, firstWakeups_snd_congr h.ua h.ub h.wake]

theorem mem_sysRoots_congr {S : Static} {s1 s2 : SimSt} {c : Comp}
    (h : (s1.sched c).Equiv (s2.sched c)) (t : SimTime) (y : Comp) :
    y ∈ sysRoots S s1 c t ↔ y ∈ sysRoots S s2 c t := by
  unfold sysRoots
  simp only [mem_sunion]
  rw [h.ints y, mem_nestedDue_congr h.ua h.ub h.wake t y, h.first]

theorem sysPreSched_equiv {a b : SchedSt} (h : a.Equiv b) (t : SimTime) :
    (sysPreSched a t).Equiv (sysPreSched b t) :=
  ⟨mapEq_delWakeups h.ua h.ub h.wake (mem_nestedDue_congr h.ua h.ub h.wake t),
    delWakeups_unique' _ h.ua _, delWakeups_unique' _ h.ub _, fun _ => Iff.rfl, rfl⟩

/-! ### one answer -/

section

variable {S : Static} {orc : Oracle}

/-- the answers of a real child: its parent is the level -/
theorem parent_of_not_pseudo (hS : S.Valid) {L : Level} (hL : L ∈ S.levels) {c : Comp}
    (hc : c ∈ L.wiring.components)
    (h1 : (L.name != "" && c == pseudoExternal) = false)
    (h2 : (L.name != "" && c == pseudoExpose) = false) : alookup S.parent c = some L.name := by
  rcases hS.comp_cases hL hc with h | ⟨hne, rfl | rfl⟩
  · exact h
  · simp [hne] at h1
  · simp [hne] at h2

/-- **one answer is determined up to equivalence**: equivalent dispatches, answered in states
that are equivalent on the footprint of the addressed component, give equivalent states on the
footprint, output changes that are equal as mappings and the same `call_at`. -/
theorem AnsP.det (hS : S.Valid) {inner1 inner2 : LevelRel}
    (hi1 : ∀ c t ro i s r, inner1 c t ro i s r → LevelDet S orc c t ro i s r)
    (hi2 : ∀ c t ro i s r, inner2 c t ro i s r → TickLevelAny S orc c t ro i s r)
    {L : Level} (hL : L ∈ S.levels) {inCh1 inCh2 : List (Port × V)} (hin : MapEq inCh1 inCh2)
    {σ1 σ2 : SimSt} {d1 d2 : Dispatch V} (hd : Dispatch.Equiv d1 d2)
    (hn1 : Det.InsNodup d1) (hn2 : Det.InsNodup d2) (hdc : d1.comp ∈ L.wiring.components)
    (hσ : ∀ x, Foot S L d1.comp x → (σ1.loc x).Equiv (σ2.loc x))
    {res1 res2 : SimSt × List (Port × V) × Option SimTime}
    (a1 : AnsP S orc inner1 L inCh1 σ1 d1 res1) (a2 : AnsP S orc inner2 L inCh2 σ2 d2 res2) :
    (∀ x, Foot S L d1.comp x → (res1.1.loc x).Equiv (res2.1.loc x)) ∧ MapEq res1.2.1 res2.2.1 ∧
      res1.2.2 = res2.2.2 := by
  cases d1 with
  | skip c t =>
    cases d2 with
    | input c' t' i' => exact hd.elim
    | skip c' t' =>
      cases a1
      cases a2
      exact ⟨hσ, mapEq_refl _, rfl⟩
  | input c t i1 =>
    cases d2 with
    | skip c' t' => exact hd.elim
    | input c' t' i2 =>
      obtain ⟨rfl, rfl, hi⟩ : c = c' ∧ t = t' ∧ ∀ q, alookup i1 q = alookup i2 q := hd
      simp only [Dispatch.comp] at hdc hσ ⊢
      cases a1 with
      | external e1 =>
        cases a2 with
        | external _ => exact ⟨hσ, hin, rfl⟩
        | expose e1' _ => rw [e1] at e1'; cases e1'
        | sys e1' _ _ _ => rw [e1] at e1'; cases e1'
        | dev e1' _ _ _ _ => rw [e1] at e1'; cases e1'
      | expose e1 e2 =>
        cases a2 with
        | external e1' => rw [e1] at e1'; cases e1'
        | expose _ _ => exact ⟨hσ, mapEq_refl _, rfl⟩
        | sys _ e2' _ _ => rw [e2] at e2'; cases e2'
        | dev _ e2' _ _ _ => rw [e2] at e2'; cases e2'
      | @sys _ _ _ st2 outCh e1 e2 e3 e4 =>
        cases a2 with
        | external e1' => rw [e1] at e1'; cases e1'
        | expose _ e2' => rw [e2] at e2'; cases e2'
        | dev _ _ e3' _ _ => rw [e3] at e3'; cases e3'
        | @sys _ _ _ st2' outCh' _ _ _ e4' =>
          have hpar := parent_of_not_pseudo hS hL hdc e1 e2
          have hcne : c ≠ "" := hS.sys_ne_master e3
          have hirr : ¬ S.Below c c := Static.Below.irrefl hS.toWF hcne
          have hfoot : ∀ x, AtOrBelow S c x → Foot S L c x := by
            rintro x (rfl | hb)
            · exact ⟨hpar, Or.inl rfl⟩
            · exact ⟨hpar, Or.inr ⟨hcne, hb⟩⟩
          have hc := hσ c (hfoot c (Or.inl rfl))
          have hsch : (σ1.sched c).Equiv (σ2.sched c) := hc.sch
          have hpre : EqOn (AtOrBelow S c) (sysPre σ1 c t) (sysPre σ2 c t) := by
            intro x hx
            by_cases hxc : x = c
            · subst hxc
              rw [loc_sysPre_self, loc_sysPre_self]
              exact ⟨hc.ins, hc.outs, hc.cnt, sysPreSched_equiv hsch t, hc.ob⟩
            · rw [loc_sysPre_ne _ _ _ hxc, loc_sysPre_ne _ _ _ hxc]
              exact hσ x (hfoot x hx)
          obtain ⟨r1, r2⟩ := hi1 _ _ _ _ _ _ e4 _ _ _ _ (mem_sysRoots_congr hsch t) hi hn1 hn2 hpre
            (hi2 _ _ _ _ _ _ e4')
          refine ⟨?_, r2, ?_⟩
          · rintro x ⟨_, rfl | ⟨_, hb⟩⟩
            · exact r1 _ (Or.inl rfl)
            · exact r1 _ (Or.inr hb)
          · exact sysCallAt_congr (r1 c (Or.inl rfl)).sch t
      | @dev _ _ _ resp e1 e2 e3 e4 e5 =>
        cases a2 with
        | external e1' => rw [e1] at e1'; cases e1'
        | expose _ e2' => rw [e2] at e2'; cases e2'
        | sys _ _ e3' _ => rw [e3] at e3'; cases e3'
        | @dev _ _ _ resp' _ _ _ e4' _ =>
          have hpar := parent_of_not_pseudo hS hL hdc e1 e2
          have hc := hσ c ⟨hpar, Or.inl rfl⟩
          have hcnt : agetD σ1.count c 0 = agetD σ2.count c 0 := hc.cnt
          have hresp : resp = resp' := by
            rw [hcnt, e4'] at e4
            exact (Option.some.inj e4).symm
          subst hresp
          have hg : MapEq ((agetD σ1.devs c {}).merge i1) ((agetD σ2.devs c {}).merge i2) :=
            Det.mapEq_aupdate hc.ins hn1 hn2 hi
          refine ⟨?_, ?_, rfl⟩
          · intro x hx
            by_cases hxc : x = c
            · subst hxc
              rw [loc_devAfter_self, loc_devAfter_self]
              exact ⟨hg, mapEq_refl _, by rw [hcnt], hc.sch,
                Det.obsEq_append hc.ob ⟨rfl, hg, trivial⟩⟩
            · rw [loc_devAfter_ne _ _ _ _ _ hxc, loc_devAfter_ne _ _ _ _ _ hxc]
              exact hσ x hx
          · show MapEq (devAfter σ1 c t i1 resp).2 (devAfter σ2 c t i2 resp).2
            have houts : MapEq (agetD σ1.devs c {}).lastOutputs (agetD σ2.devs c {}).lastOutputs :=
              hc.outs
            rw [devAfter_changes, devAfter_changes, Det.outChanges_congr houts]
            exact mapEq_refl _

end

/-! ### one level -/

section

variable {S : Static} {orc : Oracle}

/-- the record of an answered component -/
theorem Inv2.rec_of_answer {inner : LevelRel} {L : Level} {inCh : List (Port × V)} {t : SimTime}
    {roots : List Comp} {st0 : SimSt} {ls : LoopSt} {tr : List (Ev V)} {recs : List AnsRec}
    (inv : Inv2 S orc inner L inCh t roots st0 ls tr recs) {a : Comp} {ch : List (Port × V)}
    (h : Ev.answer a ch ∈ tr) :
    ∃ r ∈ recs, r.d.comp = a ∧ r.ch = ch ∧ dispatchOf tr a = some r.d := by
  obtain ⟨r, hr, h1, h2⟩ := (inv.recs_tr a ch).1 h
  refine ⟨r, hr, h1, h2, ?_⟩
  rw [← h1]
  exact dispatchOf_eq_of_mem (inv.pre.count _).1 (inv.recs_ok r hr).1

theorem Inv2.rec_dispatch {inner : LevelRel} {L : Level} {inCh : List (Port × V)} {t : SimTime}
    {roots : List Comp} {st0 : SimSt} {ls : LoopSt} {tr : List (Ev V)} {recs : List AnsRec}
    (inv : Inv2 S orc inner L inCh t roots st0 ls tr recs) {r : AnsRec} (hr : r ∈ recs) :
    dispatchOf tr r.d.comp = some r.d :=
  dispatchOf_eq_of_mem (inv.pre.count _).1 (inv.recs_ok r hr).1

/-- **one level is determined up to equivalence**: two complete executions of the loop of a level
whose inner ticks are determined. -/
theorem level_det (hS : S.Valid) {inner1 inner2 : LevelRel}
    (hi1 : ∀ c t ro i s r, inner1 c t ro i s r → LevelDet S orc c t ro i s r)
    (hi2 : ∀ c t ro i s r, inner2 c t ro i s r → TickLevelAny S orc c t ro i s r)
    {L : Level} (hL : L ∈ S.levels) {inCh1 inCh2 : List (Port × V)} (hin : MapEq inCh1 inCh2)
    {t : SimTime} {roots1 roots2 : List Comp} (hroots : ∀ c, c ∈ roots1 ↔ c ∈ roots2)
    {st1 st2 : SimSt} (hst : EqOn (AtOrBelow S L.name) st1 st2)
    {ls1 ls2 : LoopSt} {tr1 tr2 : List (Ev V)} {recs1 recs2 : List AnsRec}
    (inv1 : Inv2 S orc inner1 L inCh1 t roots1 st1 ls1 tr1 recs1)
    (inv2 : Inv2 S orc inner2 L inCh2 t roots2 st2 ls2 tr2 recs2)
    (hf1 : ls1.tk.toUpdate = []) (hf2 : ls2.tk.toUpdate = []) :
    EqOn (AtOrBelow S L.name) ls1.st ls2.st ∧ MapEq ls1.outCh ls2.outCh := by
  have hw := hS.routerOK hL
  have hacyc := hS.acyclic L hL
  have F1 : TraceFin L.wiring t roots1 tr1 := TraceFin.of_inv hw (hf1 ▸ inv1.pre) inv1.eq
  have F2 : TraceFin L.wiring t roots2 tr2 := TraceFin.of_inv hw (hf2 ▸ inv2.pre) inv2.eq
  -- two records of the same component with equivalent dispatches
  have hrec : ∀ r1 ∈ recs1, ∀ r2 ∈ recs2, r1.d.comp = r2.d.comp → Dispatch.Equiv r1.d r2.d →
      (∀ x, Foot S L r1.d.comp x → (r1.post.loc x).Equiv (r2.post.loc x)) ∧ MapEq r1.ch r2.ch ∧
        r1.ca = r2.ca := by
    intro r1 hr1 r2 hr2 hc he
    obtain ⟨hd1, ha1, hp1, _, _⟩ := inv1.recs_ok r1 hr1
    obtain ⟨hd2, ha2, hp2, _, _⟩ := inv2.recs_ok r2 hr2
    have hdc : r1.d.comp ∈ L.wiring.components :=
      (Wiring.ups_isSome_iff' L.wiring _).1 (inv1.eq.ups _ hd1)
    refine AnsP.det hS hi1 hi2 hL hin he (inv1.ins.2 _ hd1) (inv2.ins.2 _ hd2) hdc ?_ ha1 ha2
    intro x hx
    rw [hp1 x hx, hp2 x (hc ▸ hx)]
    exact hst x (Or.inr hx.below)
  have hans : ∀ a d1 d2 ch1 ch2, dispatchOf tr1 a = some d1 → dispatchOf tr2 a = some d2 →
      Dispatch.Equiv d1 d2 → Ev.answer a ch1 ∈ tr1 → Ev.answer a ch2 ∈ tr2 →
      ∀ p, alookup ch1 p = alookup ch2 p := by
    intro a d1 d2 ch1 ch2 h1 h2 he hm1 hm2
    obtain ⟨r1, hr1, hc1, hch1, hdo1⟩ := inv1.rec_of_answer hm1
    obtain ⟨r2, hr2, hc2, hch2, hdo2⟩ := inv2.rec_of_answer hm2
    rw [h1] at hdo1
    rw [h2] at hdo2
    cases hdo1
    cases hdo2
    have := (hrec r1 hr1 r2 hr2 (hc1.trans hc2.symm) he).2.1
    rw [hch1, hch2] at this
    exact this
  have hsame := sameDispatch_traces hw hacyc hroots F1 F2 hans
  -- answered in one execution iff answered in the other; the records correspond
  have hcorr : ∀ r1 ∈ recs1, ∃ r2 ∈ recs2, r1.d.comp = r2.d.comp ∧ Dispatch.Equiv r1.d r2.d := by
    intro r1 hr1
    have hd1 := inv1.rec_dispatch hr1
    have hs := hsame r1.d.comp
    rw [hd1] at hs
    cases hd2 : dispatchOf tr2 r1.d.comp with
    | none => rw [hd2] at hs; exact hs.elim
    | some d2 =>
      rw [hd2] at hs
      have hext : r1.d.comp ∈ extent L.wiring roots2 := by
        apply Classical.byContradiction
        intro hn
        rw [(F2.none_iff _).2 hn] at hd2; cases hd2
      obtain ⟨ch2, hch2⟩ := F2.answered _ hext
      obtain ⟨r2, hr2, hc2, _, hdo2⟩ := inv2.rec_of_answer hch2
      rw [hd2] at hdo2
      cases hdo2
      exact ⟨r2, hr2, hc2.symm, hs⟩
  have hcorr' : ∀ r2 ∈ recs2, ∃ r1 ∈ recs1, r1.d.comp = r2.d.comp ∧ Dispatch.Equiv r1.d r2.d := by
    intro r2 hr2
    have hd2 := inv2.rec_dispatch hr2
    have hs := hsame r2.d.comp
    rw [hd2] at hs
    cases hd1 : dispatchOf tr1 r2.d.comp with
    | none => rw [hd1] at hs; exact hs.elim
    | some d1 =>
      rw [hd1] at hs
      have hext : r2.d.comp ∈ extent L.wiring roots1 := by
        apply Classical.byContradiction
        intro hn
        rw [(F1.none_iff _).2 hn] at hd1; cases hd1
      obtain ⟨ch1, hch1⟩ := F1.answered _ hext
      obtain ⟨r1, hr1, hc1, _, hdo1⟩ := inv1.rec_of_answer hch1
      rw [hd1] at hdo1
      cases hdo1
      exact ⟨r1, hr1, hc1, hs⟩
  refine ⟨?_, ?_⟩
  · -- the states
    intro x hx
    rcases hx with rfl | hb
    · -- the level's own key: only the wakeups changed
      have h0 := hst L.name (Or.inl rfl)
      obtain ⟨a1, a2, a3, a4, a5⟩ := inv1.own
      obtain ⟨b1, b2, b3, b4, b5⟩ := inv2.own
      have hwake : MapEq (ls1.st.sched L.name).wake (ls2.st.sched L.name).wake := by
        intro a
        by_cases hex : ∃ r1 ∈ recs1, r1.d.comp = a
        · obtain ⟨r1, hr1, rfl⟩ := hex
          obtain ⟨r2, hr2, hc, he⟩ := hcorr r1 hr1
          have hca := (hrec r1 hr1 r2 hr2 hc he).2.2
          rw [(inv1.recs_ok r1 hr1).2.2.2.2, hc, (inv2.recs_ok r2 hr2).2.2.2.2, hca]
          have : alookup (st1.sched L.name).wake r2.d.comp = alookup (st2.sched L.name).wake r2.d.comp :=
            h0.sch.wake _
          rw [this]
        · have hno1 : ∀ r ∈ recs1, r.d.comp ≠ a := fun r hr h => hex ⟨r, hr, h⟩
          have hno2 : ∀ r ∈ recs2, r.d.comp ≠ a := by
            intro r2 hr2 h
            obtain ⟨r1, hr1, hc, _⟩ := hcorr' r2 hr2
            exact hex ⟨r1, hr1, hc.trans h⟩
          rw [inv1.wake_other a hno1, inv2.wake_other a hno2]
          exact h0.sch.wake a
      refine ⟨?_, ?_, ?_, ⟨hwake, inv1.own_unique h0.sch.ua, inv2.own_unique h0.sch.ub, ?_, ?_⟩, ?_⟩
      · rw [a1, b1]; exact h0.ins
      · rw [a1, b1]; exact h0.outs
      · rw [a2, b2]; exact h0.cnt
      · intro c
        show c ∈ (ls1.st.sched L.name).interrupts ↔ c ∈ (ls2.st.sched L.name).interrupts
        rw [a4, b4]; exact h0.sch.ints c
      · show (ls1.st.sched L.name).firstDone = (ls2.st.sched L.name).firstDone
        rw [a5, b5]; exact h0.sch.first
      · rw [a3, b3]; exact h0.ob
    · -- something below the level: it belongs to exactly one child
      obtain ⟨c, hc, hown⟩ := hb.top
      have hfoot : Foot S L c x := ⟨hc, hown⟩
      by_cases hex : ∃ r1 ∈ recs1, r1.d.comp = c
      · obtain ⟨r1, hr1, rfl⟩ := hex
        obtain ⟨r2, hr2, hcc, he⟩ := hcorr r1 hr1
        rw [(inv1.recs_ok r1 hr1).2.2.2.1 x hfoot, (inv2.recs_ok r2 hr2).2.2.2.1 x (hcc ▸ hfoot)]
        exact (hrec r1 hr1 r2 hr2 hcc he).1 x hfoot
      · have hno1 : ∀ r ∈ recs1, ¬ Foot S L r.d.comp x :=
          fun r hr h => hex ⟨r, hr, Foot.unique hS h hfoot⟩
        have hno2 : ∀ r ∈ recs2, ¬ Foot S L r.d.comp x := by
          intro r2 hr2 h
          obtain ⟨r1, hr1, hcc, _⟩ := hcorr' r2 hr2
          exact hex ⟨r1, hr1, hcc.trans (Foot.unique hS h hfoot)⟩
        rw [inv1.untouched x (Foot.ne_level hS hfoot) hno1,
          inv2.untouched x (Foot.ne_level hS hfoot) hno2]
        exact hst x (Or.inr hb)
  · -- the exposed output changes: what `expose` was given
    rw [inv1.outch, inv2.outch]
    rcases outOf_cases L recs1 with ⟨e1, n1⟩ | ⟨r1, hr1, e1⟩
    · rcases outOf_cases L recs2 with ⟨e2, _⟩ | ⟨r2, hr2, e2⟩
      · rw [e1, e2]; exact mapEq_refl _
      · exfalso
        obtain ⟨r1, hr1, _, he⟩ := hcorr' r2 hr2
        obtain ⟨ins', hins', _⟩ := exposeIns_equiv (L := L)
          (show Dispatch.Equiv r2.d r1.d by
            cases h1 : r1.d <;> cases h2 : r2.d <;> rw [h1, h2] at he <;>
              simp only [Dispatch.Equiv] at he ⊢
            · exact ⟨he.1.symm, he.2.1.symm, fun q => (he.2.2 q).symm⟩
            · exact ⟨he.1.symm, he.2.symm⟩) e2
        rw [n1 r1 hr1] at hins'
        cases hins'
    · obtain ⟨r2, hr2, hc, he⟩ := hcorr r1 hr1
      obtain ⟨ins', hins', hm⟩ := exposeIns_equiv he e1
      rcases outOf_cases L recs2 with ⟨_, n2⟩ | ⟨r2', hr2', e2⟩
      · rw [n2 r2 hr2] at hins'; cases hins'
      · -- both records of `expose` in the second execution are the same dispatch
        obtain ⟨t2, ht2⟩ := exposeIns_some hins'
        obtain ⟨t2', ht2'⟩ := exposeIns_some e2
        have hd := inv2.rec_dispatch hr2
        have hd' := inv2.rec_dispatch hr2'
        have hcc : r2.d.comp = r2'.d.comp := by rw [ht2, ht2']; rfl
        rw [hcc, hd'] at hd
        have : r2'.d = r2.d := Option.some.inj hd
        rw [this, hins'] at e2
        cases e2
        exact hm

end

/-! ### all levels -/

section

variable {S : Static} {orc : Oracle}

/-- **every execution of a tick is determined up to equivalence** (any answer order at every
level): `LevelDet` holds of every `TickLevelAny` execution. -/
theorem tickLevelAny_det (hS : S.Valid) {lvl : Comp} {t : SimTime} {roots : List Comp}
    {inCh : List (Port × V)} {st : SimSt} {r : SimSt × List (Port × V)}
    (h : TickLevelAny S orc lvl t roots inCh st r) : LevelDet S orc lvl t roots inCh st r := by
  refine TickLevelAny.strong_induct (Q := LevelDet S orc) ?_ h
  intro lvl t roots inCh st r hl roots' inCh' st' r' hroots hin hn hn' hst h2
  obtain ⟨L, tk, ds, hLv, hcall, hloop⟩ := hl
  obtain ⟨L', tk', ds', hLv', hcall', hloop'⟩ := h2.unfold
  rw [hLv] at hLv'
  cases hLv'
  obtain ⟨hL, hname⟩ := Static.level_some hLv
  subst hname
  have hp1 : ∀ c t ro i s r, (TickLevelAny S orc c t ro i s r ∧ LevelDet S orc c t ro i s r) →
      LevelPost1 S c s r := fun _ _ _ _ _ _ h => tickLevelAny_post1 hS h.1
  have hp2 : ∀ c t ro i s r, TickLevelAny S orc c t ro i s r → LevelPost1 S c s r :=
    fun _ _ _ _ _ _ h => tickLevelAny_post1 hS h
  obtain ⟨ls1, tr1, recs1, inv1, _, hf1, rfl⟩ :=
    hloop.run_inv2 hS hp1 hL hn (t := t) (roots := roots) (st0 := st) (Inv2.init hcall)
  obtain ⟨ls2, tr2, recs2, inv2, _, hf2, rfl⟩ :=
    hloop'.run_inv2 hS hp2 hL hn' (t := t) (roots := roots') (st0 := st') (Inv2.init hcall')
  exact level_det hS (fun _ _ _ _ _ _ h => h.2) (fun _ _ _ _ _ _ h => h) hL hin hroots hst inv1 inv2
    hf1 hf2

end

end Tickit
