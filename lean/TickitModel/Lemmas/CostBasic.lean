/-
Helper lemmas for C12 with processing costs (`Props/C12Cost.lean`), part 1:
the helper functions of `Core/SimCost.lean` are those of the zero-cost loop, the stimuli handled
in the middle of a tick (`midTick`), and `masterRunC` at zero cost is `masterRun`.

Core Lean only.
-/
import TickitModel.Core.SimCost
import TickitModel.Lemmas.PacingLemmas

namespace Tickit
namespace CostRun

open TimeMono Pacing

/-! ## the helper functions are those of `masterRun` -/

theorem stimFirstC_eq (m : MasterSt) (s : Speed) (whenT : Option SimTime) (stims : List Stim) :
    stimFirstC m s whenT stims = stimSel m s whenT stims := by
  cases stims with
  | nil => rfl
  | cons st rest => rfl

theorem stimStepC_eq (S : Static) (fuel : Nat) (s : Speed) (m : MasterSt) (st : Stim) :
    stimStepC S fuel s m st = stimStep S fuel s m st := rfl

theorem delMasterC_eq (st : SimSt) (cs : List Comp) : delMasterC st cs = delMaster st cs := rfl

theorem stimStepC_tickerTime (S : Static) (fuel : Nat) (s : Speed) (m : MasterSt) (st : Stim) :
    (stimStepC S fuel s m st).tickerTime = m.tickerTime := rfl

theorem stimStepC_lastReal (S : Static) (fuel : Nat) (s : Speed) (m : MasterSt) (st : Stim) :
    (stimStepC S fuel s m st).lastReal = m.lastReal := rfl

theorem stimStepC_now (S : Static) (fuel : Nat) (s : Speed) (m : MasterSt) (st : Stim) :
    (stimStepC S fuel s m st).now = if st.real < m.now then m.now else st.real := rfl

theorem masterRunC_unfold (S : Static) (orc : Oracle) (fuel : Nat) (s : Speed) (cost : Nat → Nat)
    (steps nTicks : Nat) (m : MasterSt) (stims : List Stim) (acc : List TickRec) :
    masterRunC S orc fuel s cost (steps + 1) (nTicks + 1) m stims acc =
      match stimFirstC m s (firstWakeups (m.sim.sched "").wake).2 stims with
      | some (st, rest) =>
        masterRunC S orc fuel s cost steps (nTicks + 1) (stimStepC S fuel s m st) rest acc
      | none =>
        match firstWakeups (m.sim.sched "").wake with
        | (comps, some w) =>
          match tickLevel S orc fuel "" w comps [] (delMasterC m.sim comps) with
          | .error e => .error e
          | .ok (sim2, _) =>
            masterRunC S orc fuel s cost steps nTicks
              (endTick S fuel s sim2 w (dueReal m s w) (dueReal m s w + cost acc.length) stims).1
              (endTick S fuel s sim2 w (dueReal m s w) (dueReal m s w + cost acc.length) stims).2
              (acc ++ [⟨w, dueReal m s w, comps⟩])
        | (_, none) => .ok (m, acc) := by
  rw [masterRunC]
  rfl

theorem masterRunC_zero_ticks (S : Static) (orc : Oracle) (fuel : Nat) (s : Speed) (cost : Nat → Nat)
    (steps : Nat) (m : MasterSt) (stims : List Stim) (acc : List TickRec) :
    masterRunC S orc fuel s cost steps 0 m stims acc = .ok (m, acc) := by
  cases steps with
  | zero => rw [masterRunC]
  | succ n => rw [masterRunC.eq_2 _ _ _ _ _ _ _ _ _ (by simp)]

/-! ## stimuli in the middle of a tick -/

/-- no stimulus falls into an empty window -/
theorem midTick_empty (S : Static) (fuel : Nat) (s : Speed) (e : Int) (m : MasterSt)
    (stims : List Stim) (h : e ≤ m.lastReal + 1) : midTick S fuel s e m stims = (m, stims) := by
  cases stims with
  | nil => rfl
  | cons st rest =>
    rw [midTick, if_neg]
    omega

theorem midTick_nil (S : Static) (fuel : Nat) (s : Speed) (e : Int) (m : MasterSt) :
    midTick S fuel s e m [] = (m, []) := rfl

/-- handling mid-tick stimuli changes neither the ticker time nor the recorded start of the
tick; real time does not go back and stays inside the tick. -/
theorem midTick_frame (S : Static) (fuel : Nat) (s : Speed) (e : Int) (m : MasterSt)
    (stims : List Stim) :
    (midTick S fuel s e m stims).1.tickerTime = m.tickerTime ∧
    (midTick S fuel s e m stims).1.lastReal = m.lastReal ∧
    m.now ≤ (midTick S fuel s e m stims).1.now ∧
    (m.now ≤ e → (midTick S fuel s e m stims).1.now ≤ e) := by
  induction stims generalizing m with
  | nil => exact ⟨rfl, rfl, Int.le_refl _, fun h => h⟩
  | cons st rest ih =>
    rw [midTick]
    split
    · rename_i hg
      obtain ⟨h1, h2, h3, h4⟩ := ih (stimStepC S fuel s m st)
      rw [stimStepC_tickerTime] at h1
      rw [stimStepC_lastReal] at h2
      rw [stimStepC_now] at h3 h4
      refine ⟨h1, h2, ?_, fun hle => h4 ?_⟩
      · split at h3 <;> omega
      · split <;> omega
    · exact ⟨rfl, rfl, Int.le_refl _, fun h => h⟩

theorem midTick_suffix (S : Static) (fuel : Nat) (s : Speed) (e : Int) (m : MasterSt)
    (stims : List Stim) : ∃ pre, stims = pre ++ (midTick S fuel s e m stims).2 := by
  induction stims generalizing m with
  | nil => exact ⟨[], rfl⟩
  | cons st rest ih =>
    rw [midTick]
    split
    · obtain ⟨pre, hpre⟩ := ih (stimStepC S fuel s m st)
      exact ⟨st :: pre, by rw [List.cons_append, ← hpre]⟩
    · exact ⟨[], rfl⟩

/-! ## the end of a tick -/

theorem endTick_fst (S : Static) (fuel : Nat) (s : Speed) (sim : SimSt) (w : SimTime) (d e : Int)
    (stims : List Stim) :
    (endTick S fuel s sim w d e stims).1.tickerTime = w ∧
    (endTick S fuel s sim w d e stims).1.lastReal = e ∧
    (endTick S fuel s sim w d e stims).1.now = e := by
  refine ⟨?_, rfl, rfl⟩
  exact (midTick_frame S fuel s e { sim := sim, tickerTime := w, lastReal := d, now := d } stims).1

theorem endTick_nil (S : Static) (fuel : Nat) (s : Speed) (sim : SimSt) (w : SimTime) (d e : Int) :
    endTick S fuel s sim w d e [] = ({ sim := sim, tickerTime := w, lastReal := e, now := e }, []) :=
  rfl

/-- a tick that takes no time: no stimulus is handled inside it -/
theorem endTick_zero (S : Static) (fuel : Nat) (s : Speed) (sim : SimSt) (w : SimTime) (d : Int)
    (stims : List Stim) :
    endTick S fuel s sim w d d stims = ({ sim := sim, tickerTime := w, lastReal := d, now := d }, stims) := by
  unfold endTick
  simp only []
  rw [midTick_empty S fuel s d _ stims (by show d ≤ d + 1; omega)]

/-! ## zero cost: `masterRunC` is `masterRun` -/

theorem masterRunC_zero (S : Static) (orc : Oracle) (fuel : Nat) (s : Speed) (cost : Nat → Nat)
    (hc : ∀ k, cost k = 0) :
    ∀ (steps nTicks : Nat) (m : MasterSt) (stims : List Stim) (acc : List TickRec),
      masterRunC S orc fuel s cost steps nTicks m stims acc =
        masterRun S orc fuel s steps nTicks m stims acc := by
  intro steps
  induction steps with
  | zero =>
    intro nTicks m stims acc
    rw [masterRunC, masterRun]
  | succ steps ih =>
    intro nTicks m stims acc
    cases nTicks with
    | zero =>
      rw [masterRunC_zero_ticks, masterRun.eq_2 _ _ _ _ _ _ _ _ (by simp)]
    | succ nTicks =>
      rw [masterRunC_unfold, masterRun_unfold, stimFirstC_eq]
      cases hsel : stimSel m s (firstWakeups (m.sim.sched "").wake).2 stims with
      | some p =>
        obtain ⟨st, rest⟩ := p
        simp only []
        rw [ih, stimStepC_eq]
      | none =>
        simp only []
        cases hfw : firstWakeups (m.sim.sched "").wake with
        | mk comps whenT =>
          cases whenT with
          | none => rfl
          | some w =>
            simp only []
            rw [delMasterC_eq]
            cases ht : tickLevel S orc fuel "" w comps [] (delMaster m.sim comps) with
            | error e => rfl
            | ok r =>
              simp only []
              rw [hc, Int.natCast_zero, Int.add_zero, endTick_zero, ih]

theorem masterInitialC_zero (S : Static) (orc : Oracle) (fuel : Nat) (s : Speed) (cost : Nat → Nat)
    (hc : cost 0 = 0) (t0 : SimTime) (now : Int) (stims : List Stim) :
    masterInitialC S orc fuel s cost t0 now stims =
      (masterInitial S orc fuel t0 now).map (fun r => (r.1, r.2, stims)) := by
  unfold masterInitialC masterInitial
  cases S.level "" with
  | none => rfl
  | some L =>
    simp only []
    cases tickLevel S orc fuel "" t0 L.wiring.components [] {} with
    | error e => rfl
    | ok r =>
      simp only []
      rw [hc, Int.natCast_zero, Int.add_zero, endTick_zero]
      rfl

end CostRun
end Tickit
