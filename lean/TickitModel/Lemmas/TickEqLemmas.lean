/-
Helper lemmas for the tick equations: what a tick computes (C02), and that it is a function
of the wiring, the roots and the components' reactions only — not of the answer order (C08).
-/
import TickitModel.Lemmas.TickerLemmas

namespace Tickit

variable {Val : Type}

/-- the facts about the router that the ticker relies on (proved for every well-formed,
one-source wiring in `Props/C16`: `route_exact`, `route_wf`, `mem_ups_iff`). -/
structure RouterOK (w : Wiring) : Prop where
  oneSource : ∀ a p a' p' b q, w.Conn a p b q → w.Conn a' p' b q → a = a' ∧ p = p'
  route_exact : ∀ {Val : Type} (a : Comp) (ch : List (Port × Val)), (akeys ch).Nodup → ∀ b q v,
    (∃ m, alookup (w.route a ch) b = some m ∧ alookup m q = some v) ↔
      ∃ p, alookup ch p = some v ∧ w.Conn a p b q
  route_wf : ∀ {Val : Type} (a : Comp) (ch : List (Port × Val)),
    (akeys (w.route a ch)).Nodup ∧ ∀ e ∈ w.route a ch, (akeys e.2).Nodup ∧ e.2 ≠ []
  ups_edge : ∀ b us, w.ups b = some us → ∀ a, a ∈ us ↔ w.Edge a b

/-- reactions are Python dicts (unique keys) -/
def ReactWF (react : React Val) : Prop := ∀ c ins, (akeys (react c ins)).Nodup

/-- reactions depend on the input changes as a *mapping* (not on the order in which the
changes happened to arrive) -/
def ReactExt (react : React Val) : Prop :=
  ∀ c i1 i2, (∀ q, alookup i1 q = alookup i2 q) → react c i1 = react c i2

/-- the dispatch a component received in a trace, if any -/
def dispatchOf (trace : List (Ev Val)) (c : Comp) : Option (Dispatch Val) :=
  trace.findSome? (fun e => match e with
    | .dispatch d => if d.comp = c then some d else none
    | .answer _ _ => none)

/-- two dispatches are the same up to the order of the changes inside an `Input` -/
def Dispatch.Equiv : Dispatch Val → Dispatch Val → Prop
  | .input c t i1, .input c' t' i2 => c = c' ∧ t = t' ∧ ∀ q, alookup i1 q = alookup i2 q
  | .skip c t, .skip c' t' => c = c' ∧ t = t'
  | _, _ => False

end Tickit
