/-
Helper lemmas for the tick equations: what a tick computes (C02), and that it is a function
of the wiring, the roots and the components' reactions only — not of the answer order (C08).
-/
import TickitModel.Lemmas.TickerLemmas

namespace Tickit

variable {Val : Type}

/-- the facts about the router that the ticker relies on (proved for every well-formed,
one-source wiring in `Props/C16`: `route_exact`, `route_wf`, `mem_ups_iff`). -/
structure RouterOK (w : Wiring) : Prop where
  oneSource : ∀ a p a' p' b q, w.Conn a p b q → w.Conn a' p' b q → a = a' ∧ p = p'
  route_exact : ∀ {Val : Type} (a : Comp) (ch : List (Port × Val)), (akeys ch).Nodup → ∀ b q v,
    (∃ m, alookup (w.route a ch) b = some m ∧ alookup m q = some v) ↔
      ∃ p, alookup ch p = some v ∧ w.Conn a p b q
  route_wf : ∀ {Val : Type} (a : Comp) (ch : List (Port × Val)),
    (akeys (w.route a ch)).Nodup ∧ ∀ e ∈ w.route a ch, (akeys e.2).Nodup ∧ e.2 ≠ []
  ups_edge : ∀ b us, w.ups b = some us → ∀ a, a ∈ us ↔ w.Edge a b

/-- reactions are Python dicts (unique keys) -/
def ReactWF (react : React Val) : Prop := ∀ c ins, (akeys (react c ins)).Nodup

/-- reactions depend on the input changes as a *mapping* (not on the order in which the
changes happened to arrive) -/
def ReactExt (react : React Val) : Prop :=
  ∀ c i1 i2, (∀ q, alookup i1 q = alookup i2 q) → react c i1 = react c i2

/-- the dispatch a component received in a trace, if any -/
def dispatchOf (trace : List (Ev Val)) (c : Comp) : Option (Dispatch Val) :=
  trace.findSome? (fun e => match e with
    | .dispatch d => if d.comp = c then some d else none
    | .answer _ _ => none)

/-- two dispatches are the same up to the order of the changes inside an `Input` -/
def Dispatch.Equiv : Dispatch Val → Dispatch Val → Prop
  | .input c t i1, .input c' t' i2 => c = c' ∧ t = t' ∧ ∀ q, alookup i1 q = alookup i2 q
  | .skip c t, .skip c' t' => c = c' ∧ t = t'
  | _, _ => False

/-! ### association-list facts -/

section Dict

variable {κ β : Type} [DecidableEq κ]

theorem aupdate_nil (m : List (κ × β)) : aupdate m [] = m := rfl

theorem aupdate_cons (m : List (κ × β)) (kv : κ × β) (o : List (κ × β)) :
    aupdate m (kv :: o) = aupdate (upsert m kv.1 kv.2) o := rfl

/-- `d.update(other)` for a dict `other`: the new value is the one of `other` if it has the
key, else the old one. -/
theorem alookup_aupdate_of_nodup (m : List (κ × β)) {o : List (κ × β)} (hn : (akeys o).Nodup)
    (x : κ) : alookup (aupdate m o) x = (alookup o x).orElse (fun _ => alookup m x) := by
  induction o generalizing m with
  | nil => simp [aupdate]
  | cons e o ih =>
    obtain ⟨k, v⟩ := e
    simp only [akeys_cons, List.nodup_cons] at hn
    rw [aupdate_cons, ih _ hn.2, alookup_upsert, alookup_cons]
    by_cases hk : k = x
    · subst hk
      have : alookup o k = none := alookup_eq_none_iff.2 hn.1
      simp [this]
    · simp [hk]

/-- `d.update(items)` for an arbitrary item list: later duplicates win. -/
theorem alookup_aupdate (m o : List (κ × β)) (x : κ) :
    alookup (aupdate m o) x = (alookup (aupdate [] o) x).orElse (fun _ => alookup m x) := by
  induction o generalizing m with
  | nil => simp [aupdate]
  | cons e o ih =>
    obtain ⟨k, v⟩ := e
    rw [aupdate_cons, ih, aupdate_cons, ih (upsert [] k v)]
    cases h : alookup (aupdate [] o) x with
    | some a => simp
    | none =>
      simp only [Option.orElse_none, alookup_upsert, alookup_nil]
      split <;> simp

theorem nodup_akeys_aupdate {m : List (κ × β)} (hn : (akeys m).Nodup) (o : List (κ × β)) :
    (akeys (aupdate m o)).Nodup := by
  induction o generalizing m with
  | nil => exact hn
  | cons e o ih => exact ih (nodup_akeys_upsert hn _ _)

/-- a non-empty association list has a key with a value. -/
theorem ne_nil_iff_exists_alookup {m : List (κ × β)} :
    m ≠ [] ↔ ∃ k v, alookup m k = some v := by
  cases m with
  | nil => simp
  | cons e m =>
    obtain ⟨k, v⟩ := e
    simp only [ne_eq, reduceCtorEq, not_false_eq_true, true_iff]
    exact ⟨k, v, by simp [alookup_cons]⟩

theorem option_ext_some {o1 o2 : Option β} (h : ∀ v, o1 = some v ↔ o2 = some v) : o1 = o2 := by
  cases o1 with
  | none =>
    cases o2 with
    | none => rfl
    | some b => exact ((h b).2 rfl).symm ▸ rfl
  | some a => exact ((h a).1 rfl).symm

/-- at most one element of a list passes a filter of length ≤ 1. -/
theorem eq_of_filter_length_le_one {α : Type} {l : List α} {p : α → Bool}
    (h : (l.filter p).length ≤ 1) {x y : α} (hx : x ∈ l) (hy : y ∈ l) (px : p x = true)
    (py : p y = true) : x = y := by
  have mx : x ∈ l.filter p := List.mem_filter.2 ⟨hx, px⟩
  have my : y ∈ l.filter p := List.mem_filter.2 ⟨hy, py⟩
  match hl : l.filter p, h, mx, my with
  | [], _, mx, _ => simp at mx
  | [z], _, mx, my =>
    simp at mx my; rw [mx, my]
  | _ :: _ :: _, h, _, _ => simp at h

end Dict

/-! ### `dispatchOf` -/

@[simp] theorem dispatchOf_nil (c : Comp) : dispatchOf ([] : List (Ev Val)) c = none := rfl

theorem dispatchOf_cons_dispatch (d : Dispatch Val) (tr : List (Ev Val)) (c : Comp) :
    dispatchOf (Ev.dispatch d :: tr) c = if d.comp = c then some d else dispatchOf tr c := by
  simp only [dispatchOf, List.findSome?_cons]
  split <;> rename_i h <;> split at h <;> simp_all

theorem dispatchOf_cons_answer (a : Comp) (ch : List (Port × Val)) (tr : List (Ev Val)) (c : Comp) :
    dispatchOf (Ev.answer a ch :: tr) c = dispatchOf tr c := by
  simp [dispatchOf]

theorem dispatchOf_eq_none_iff {tr : List (Ev Val)} {c : Comp} :
    dispatchOf tr c = none ↔ ∀ d, Ev.dispatch d ∈ tr → d.comp ≠ c := by
  induction tr with
  | nil => simp
  | cons e tr ih =>
    cases e with
    | dispatch d' =>
      rw [dispatchOf_cons_dispatch]
      by_cases h : d'.comp = c
      · simp only [h, if_true, reduceCtorEq, false_iff]
        exact fun hh => hh d' (by simp) h
      · simp only [h, if_false, ih, List.mem_cons, Ev.dispatch.injEq]
        constructor
        · rintro hh d (rfl | hd)
          · exact h
          · exact hh d hd
        · exact fun hh d hd => hh d (Or.inr hd)
    | answer a ch =>
      rw [dispatchOf_cons_answer, ih]
      simp

theorem dispatchOf_eq_some {tr : List (Ev Val)} {c : Comp} {d : Dispatch Val}
    (h : dispatchOf tr c = some d) : Ev.dispatch d ∈ tr ∧ d.comp = c := by
  induction tr with
  | nil => simp at h
  | cons e tr ih =>
    cases e with
    | dispatch d' =>
      rw [dispatchOf_cons_dispatch] at h
      by_cases hc : d'.comp = c
      · simp only [hc, if_true, Option.some.injEq] at h
        subst h; exact ⟨by simp, hc⟩
      · simp only [hc, if_false] at h
        exact ⟨List.mem_cons_of_mem _ (ih h).1, (ih h).2⟩
    | answer a ch =>
      rw [dispatchOf_cons_answer] at h
      exact ⟨List.mem_cons_of_mem _ (ih h).1, (ih h).2⟩

/-- with at most one dispatch per component, `dispatchOf` finds *the* dispatch. -/
theorem dispatchOf_eq_of_mem {tr : List (Ev Val)} {d : Dispatch Val}
    (hcount : (tr.filter (Ev.isDispatchOf d.comp)).length ≤ 1) (hd : Ev.dispatch d ∈ tr) :
    dispatchOf tr d.comp = some d := by
  cases h : dispatchOf tr d.comp with
  | none => exact absurd rfl (dispatchOf_eq_none_iff.1 h d hd)
  | some d' =>
    obtain ⟨hd', hc⟩ := dispatchOf_eq_some h
    have := eq_of_filter_length_le_one hcount hd' hd (by simp [Ev.isDispatchOf, hc])
      (by simp [Ev.isDispatchOf])
    cases this; rfl

/-! ### `addInputs` and routing -/

theorem addInputs_cons (inputs : List (Comp × List (Port × Val))) (e : Comp × List (Port × Val))
    (routed : List (Comp × List (Port × Val))) :
    addInputs inputs (e :: routed) =
      addInputs (upsert inputs e.1 (aupdate (agetD inputs e.1 []) e.2)) routed := rfl

/-- `self.inputs[c].update(change)` for every routed `(c, change)`: per component. -/
theorem alookup_addInputs (inputs : List (Comp × List (Port × Val)))
    {routed : List (Comp × List (Port × Val))} (hn : (akeys routed).Nodup) (c : Comp) :
    alookup (addInputs inputs routed) c =
      match alookup routed c with
      | some ch => some (aupdate (agetD inputs c []) ch)
      | none => alookup inputs c := by
  induction routed generalizing inputs with
  | nil => rfl
  | cons e routed ih =>
    obtain ⟨k, ch⟩ := e
    simp only [akeys_cons, List.nodup_cons] at hn
    rw [addInputs_cons, ih _ hn.2, alookup_cons]
    by_cases hk : k = c
    · subst hk
      rw [alookup_eq_none_iff.2 hn.1]
      simp [alookup_upsert]
    · simp only [hk, if_false, agetD, alookup_upsert]

theorem agetD_addInputs (inputs : List (Comp × List (Port × Val)))
    {routed : List (Comp × List (Port × Val))} (hn : (akeys routed).Nodup) (c : Comp) :
    agetD (addInputs inputs routed) c [] = aupdate (agetD inputs c []) (agetD routed c []) := by
  rw [agetD, alookup_addInputs inputs hn]
  cases h : alookup routed c with
  | none => simp [agetD, h, aupdate]
  | some ch => simp [agetD, h]

theorem RouterOK.alookup_agetD_route {w : Wiring} (hw : RouterOK w) (a : Comp)
    (ch : List (Port × Val)) (hch : (akeys ch).Nodup) (c : Comp) (q : Port) (v : Val) :
    alookup (agetD (w.route a ch) c []) q = some v ↔ ∃ p, alookup ch p = some v ∧ w.Conn a p c q := by
  rw [← hw.route_exact a ch hch c q v]
  cases h : alookup (w.route a ch) c with
  | none => simp [agetD, h]
  | some m => simp [agetD, h]

theorem RouterOK.nodup_agetD_route {w : Wiring} (hw : RouterOK w) (a : Comp)
    (ch : List (Port × Val)) (c : Comp) : (akeys (agetD (w.route a ch) c [])).Nodup := by
  cases h : alookup (w.route a ch) c with
  | none => simp [agetD, h]
  | some m =>
    simp only [agetD, h, Option.getD_some]
    exact ((hw.route_wf a ch).2 (c, m) (mem_of_alookup_eq_some h)).1

/-! ### the accumulator `inputs` -/

/-- input port `q` of `c` was reported changed to `v` by an answer in `tr`. -/
def Changed (w : Wiring) (tr : List (Ev Val)) (c : Comp) (q : Port) (v : Val) : Prop :=
  ∃ a chs p, Ev.answer a chs ∈ tr ∧ w.Conn a p c q ∧ alookup chs p = some v

/-- the accumulator holds exactly the values routed from the answers given so far. -/
def InputsInv (w : Wiring) (inputs : List (Comp × List (Port × Val))) (tr : List (Ev Val)) : Prop :=
  ∀ c q v, alookup (agetD inputs c []) q = some v ↔ Changed w tr c q v

theorem Changed.congr {w : Wiring} {tr tr' : List (Ev Val)}
    (he : ∀ a chs, Ev.answer (Val := Val) a chs ∈ tr ↔ Ev.answer a chs ∈ tr') (c : Comp) (q : Port)
    (v : Val) : Changed w tr c q v ↔ Changed w tr' c q v := by
  constructor <;> rintro ⟨a, chs, p, h1, h2⟩
  · exact ⟨a, chs, p, (he _ _).1 h1, h2⟩
  · exact ⟨a, chs, p, (he _ _).2 h1, h2⟩

theorem InputsInv.congr {w : Wiring} {inputs : List (Comp × List (Port × Val))}
    {tr tr' : List (Ev Val)} (h : InputsInv w inputs tr)
    (he : ∀ a chs, Ev.answer a chs ∈ tr ↔ Ev.answer a chs ∈ tr') : InputsInv w inputs tr' :=
  fun c q v => (h c q v).trans (Changed.congr he c q v)

theorem InputsInv.nil (w : Wiring) : InputsInv (Val := Val) w [] [] := by
  intro c q v
  simp [agetD, Changed]

/-- taking in the (first) answer of `src`. -/
theorem InputsInv.answer {w : Wiring} (hw : RouterOK w) {inputs : List (Comp × List (Port × Val))}
    {tr : List (Ev Val)} (h : InputsInv w inputs tr) {src : Comp} {chs : List (Port × Val)}
    (hch : (akeys chs).Nodup) (hfresh : ∀ ch', Ev.answer src ch' ∉ tr) :
    InputsInv w (addInputs inputs (w.route src chs)) (tr ++ [Ev.answer src chs]) := by
  intro c q v
  rw [agetD_addInputs _ (hw.route_wf src chs).1,
    alookup_aupdate_of_nodup _ (hw.nodup_agetD_route src chs c)]
  constructor
  · intro hl
    cases hR : alookup (agetD (w.route src chs) c []) q with
    | some v' =>
      rw [hR] at hl
      simp only [Option.orElse_some, Option.some.injEq] at hl
      subst hl
      obtain ⟨p, hp, hc⟩ := (hw.alookup_agetD_route src chs hch c q v').1 hR
      exact ⟨src, chs, p, by simp, hc, hp⟩
    | none =>
      rw [hR] at hl
      simp only [Option.orElse_none] at hl
      obtain ⟨a, chs', p, h1, h2⟩ := (h c q v).1 hl
      exact ⟨a, chs', p, List.mem_append_left _ h1, h2⟩
  · rintro ⟨a, chs', p, h1, hc, hp⟩
    simp only [List.mem_append, List.mem_singleton, Ev.answer.injEq] at h1
    rcases h1 with h1 | ⟨rfl, rfl⟩
    · have hI := (h c q v).2 ⟨a, chs', p, h1, hc, hp⟩
      cases hR : alookup (agetD (w.route src chs) c []) q with
      | none => simp [hI]
      | some v' =>
        obtain ⟨p', hp', hc'⟩ := (hw.alookup_agetD_route src chs hch c q v').1 hR
        obtain ⟨rfl, _⟩ := hw.oneSource _ _ _ _ _ _ hc hc'
        exact absurd h1 (hfresh _)
    · have := (hw.alookup_agetD_route a chs' hch c q v).2 ⟨p, hp, hc⟩
      simp [this]

/-! ### `decide` -/

theorem Ticker.decide_cases (tk : Ticker Val) (c : Comp) :
    (tk.decide c = .input c tk.time (agetD tk.inputs c []) ∧
        (agetD tk.inputs c [] ≠ [] ∨ c ∈ tk.roots)) ∨
      (tk.decide c = .skip c tk.time ∧ agetD tk.inputs c [] = [] ∧ c ∉ tk.roots) := by
  unfold Ticker.decide
  simp only []
  split
  · rename_i h
    simp only [Bool.or_eq_true, Bool.not_eq_true', List.isEmpty_eq_false_iff, decide_eq_true_eq]
      at h
    exact Or.inl ⟨rfl, h⟩
  · rename_i h
    simp only [Bool.or_eq_true, Bool.not_eq_true', List.isEmpty_eq_false_iff, decide_eq_true_eq,
      not_or, Classical.not_not] at h
    exact Or.inr ⟨rfl, h⟩

/-- `d` is what `Ticker.decide` yields in a ticker state (of the tick `t`, `roots`) whose
accumulated inputs reflect exactly the answers in `pre`. -/
def DecidedFrom (w : Wiring) (t : SimTime) (roots : List Comp) (pre : List (Ev Val))
    (d : Dispatch Val) : Prop :=
  ∃ tk : Ticker Val, tk.roots = roots ∧ tk.time = t ∧ InputsInv w tk.inputs pre ∧
    d = tk.decide d.comp

/-- the content of a dispatch decided from `pre`: `Input` with exactly the changed ports if it
is a root or something changed, `Skip` otherwise. -/
theorem DecidedFrom.spec {w : Wiring} {t : SimTime} {roots : List Comp} {pre : List (Ev Val)}
    {d : Dispatch Val} (h : DecidedFrom w t roots pre d) :
    (∃ ins, d = .input d.comp t ins ∧ (d.comp ∈ roots ∨ ∃ q v, Changed w pre d.comp q v) ∧
        ∀ q v, alookup ins q = some v ↔ Changed w pre d.comp q v) ∨
      (d = .skip d.comp t ∧ d.comp ∉ roots ∧ ∀ q v, ¬ Changed w pre d.comp q v) := by
  obtain ⟨tk, rfl, rfl, hin, hd⟩ := h
  rcases tk.decide_cases d.comp with ⟨h1, h2⟩ | ⟨h1, h2, h3⟩
  · rw [h1] at hd
    refine Or.inl ⟨_, hd, ?_, fun q v => hin _ q v⟩
    rcases h2 with h2 | h2
    · obtain ⟨q, v, hq⟩ := ne_nil_iff_exists_alookup.1 h2
      exact Or.inr ⟨q, v, (hin _ q v).1 hq⟩
    · exact Or.inl h2
  · rw [h1] at hd
    refine Or.inr ⟨hd, h3, fun q v hc => ?_⟩
    have := (hin _ q v).2 hc
    rw [h2] at this
    simp at this

/-! ### the tick-equation invariant -/

/-- The part of the invariant about the accumulator and the content of dispatches and
answers; like `PreInv` it also holds between "answer taken in" and the following
`schedule_possible_updates`. -/
structure EqPre (w : Wiring) (react : React Val) (t : SimTime) (roots : List Comp)
    (inputs : List (Comp × List (Port × Val))) (trace : List (Ev Val)) : Prop where
  /-- the accumulator reflects the answers so far -/
  inputs : InputsInv w inputs trace
  /-- every dispatch was decided from the answers preceding it -/
  dec : ∀ pre d post, trace = pre ++ Ev.dispatch d :: post → DecidedFrom w t roots pre d
  /-- a dispatched component is known to the inverse tree -/
  ups : ∀ d, Ev.dispatch d ∈ trace → (w.ups d.comp).isSome = true
  /-- every answer is the reaction to a dispatch of the trace -/
  ans : ∀ a chs, Ev.answer a chs ∈ trace →
    ∃ d, Ev.dispatch d ∈ trace ∧ d.comp = a ∧ chs = answerOf react d

theorem EqPre.start (w : Wiring) (react : React Val) (t : SimTime) (roots : List Comp) :
    EqPre w react t roots [] [] :=
  { inputs := InputsInv.nil w
    dec := by simp
    ups := by simp
    ans := by simp }

theorem nodup_akeys_answerOf {react : React Val} (hr : ReactWF react) (d : Dispatch Val) :
    (akeys (answerOf react d)).Nodup := by
  cases d with
  | input c t ins => exact hr c ins
  | skip c t => simp [answerOf]

theorem EqPre.answer {w : Wiring} (hw : RouterOK w) {react : React Val} (hr : ReactWF react)
    {t : SimTime} {roots : List Comp} {inputs : List (Comp × List (Port × Val))}
    {tu : List (Comp × Bool)} {pending : List (Dispatch Val)} {trace : List (Ev Val)}
    (h : EqPre w react t roots inputs trace) (hp : PreInv w t roots tu pending trace)
    {d : Dispatch Val} (hd : d ∈ pending) :
    EqPre w react t roots (addInputs inputs (w.route d.comp (answerOf react d)))
      (trace ++ [Ev.answer d.comp (answerOf react d)]) := by
  have h0 : alookup tu d.comp = some true := (hp.pend_flag _).1 ⟨d, hd, rfl⟩
  have hfresh : ∀ ch', Ev.answer d.comp ch' ∉ trace := by
    intro ch' hm
    have := (hp.resolved d.comp (hp.keys_ext _ (by rw [h0]; simp))).2 ⟨ch', hm⟩
    rw [h0] at this; cases this
  exact
    { inputs := h.inputs.answer hw (nodup_akeys_answerOf hr d) hfresh
      dec := by
        intro pre d' post htr
        rcases append_eq_append_cons htr with ⟨post', h1, _⟩ | ⟨pre', _, h2⟩
        · exact h.dec pre d' post' h1
        · cases pre' <;> simp at h2
      ups := by
        intro d' hd'
        simp only [List.mem_append, List.mem_singleton, reduceCtorEq, or_false] at hd'
        exact h.ups d' hd'
      ans := by
        intro a chs hm
        simp only [List.mem_append, List.mem_singleton, Ev.answer.injEq] at hm
        rcases hm with hm | ⟨rfl, rfl⟩
        · obtain ⟨d', h1, h2⟩ := h.ans a chs hm
          exact ⟨d', List.mem_append_left _ h1, h2⟩
        · exact ⟨d, List.mem_append_left _ (hp.pend_trace d hd), rfl, rfl⟩ }

theorem EqPre.schedule {w : Wiring} {react : React Val} {t : SimTime} {roots : List Comp}
    {tk : Ticker Val} {trace : List (Ev Val)} {l : List (Comp × Bool)} {ds : List (Dispatch Val)}
    (h : EqPre w react t roots tk.inputs trace) (hroots : tk.roots = roots) (ht : tk.time = t)
    (hs : Ticker.scheduleLoop w tk l = .ok ds) :
    EqPre w react t roots tk.inputs (trace ++ ds.map Ev.dispatch) := by
  obtain ⟨hspec, hups⟩ := scheduleLoop_spec hs
  have hmem : ∀ d ∈ ds, ∃ e ∈ l, e.2 = false ∧ d = tk.decide e.1 := by
    intro d hd
    rw [hspec] at hd
    obtain ⟨e, he, rfl⟩ := List.mem_map.1 hd
    obtain ⟨he, hsel⟩ := List.mem_filter.1 he
    simp only [Ticker.selects, Bool.and_eq_true, Bool.not_eq_true'] at hsel
    exact ⟨e, he, hsel.1, rfl⟩
  exact
    { inputs := h.inputs.congr (by simp)
      dec := by
        intro pre d post htr
        rcases append_eq_append_cons htr with ⟨post', h1, _⟩ | ⟨pre', h1, h2⟩
        · exact h.dec _ _ _ h1
        · have hd : d ∈ ds := by
            have : Ev.dispatch d ∈ ds.map Ev.dispatch := by rw [h2]; simp
            simpa using this
          obtain ⟨e, _, _, hde⟩ := hmem d hd
          refine ⟨tk, hroots, ht, h.inputs.congr ?_, ?_⟩
          · intro a chs
            rw [h1, List.mem_append]
            constructor
            · exact Or.inl
            · rintro (hm | hm)
              · exact hm
              · have : Ev.answer a chs ∈ ds.map Ev.dispatch := by rw [h2]; simp [hm]
                simp at this
          · have : d.comp = e.1 := by rw [hde]; simp
            rw [this]; exact hde
      ups := by
        intro d hd
        rcases List.mem_append.1 hd with hd | hd
        · exact h.ups d hd
        · simp only [List.mem_map, Ev.dispatch.injEq, exists_eq_right] at hd
          obtain ⟨e, he, hf, hde⟩ := hmem d hd
          have : d.comp = e.1 := by rw [hde]; simp
          rw [this]; exact hups e he hf
      ans := by
        intro a chs hm
        simp only [List.mem_append, List.mem_map, reduceCtorEq, and_false, exists_false,
          or_false] at hm
        obtain ⟨d', h1, h2⟩ := h.ans a chs hm
        exact ⟨d', List.mem_append_left _ h1, h2⟩ }

/-- the ticker fields `init`/`step` leave alone or extend (complements `init_eq_ok`,
`step_eq_ok`). -/
theorem TickSys.init_tk {w : Wiring} {t : SimTime} {roots : List Comp} {s : TickSys Val}
    (h : TickSys.init w t roots = .ok s) : s.tk.roots = roots ∧ s.tk.inputs = [] := by
  simp only [TickSys.init, Ticker.call, Ticker.schedule] at h
  cases hr : Ticker.scheduleLoop w (Ticker.startTick w t roots : Ticker Val)
      (Ticker.startTick w t roots : Ticker Val).toUpdate with
  | error e => simp [hr, Except.map] at h
  | ok ds =>
    simp only [hr, Except.map, Except.ok.injEq] at h
    subst h
    exact ⟨rfl, rfl⟩

theorem TickSys.step_tk {w : Wiring} {react : React Val} {s s' : TickSys Val} {i : Nat}
    (h : s.step w react i = some (.ok s')) {d : Dispatch Val} (hd : s.pending[i]? = some d) :
    s'.tk.roots = s.tk.roots ∧
      s'.tk.inputs = addInputs s.tk.inputs (w.route d.comp (answerOf react d)) := by
  simp only [TickSys.step, hd, Option.some.injEq, Ticker.propagate] at h
  by_cases h1 : (alookup s.tk.toUpdate d.comp).isNone = true
  · simp [h1, Except.map] at h
  · simp only [h1, Bool.false_eq_true, if_false] at h
    by_cases h2 : d.time ≠ s.tk.time
    · simp [h2, Except.map] at h
    · simp only [h2, if_false, Ticker.schedule] at h
      cases hr : Ticker.scheduleLoop w (s.tk.afterAnswer w d.comp (answerOf react d))
          (aerase s.tk.toUpdate d.comp) with
      | error e =>
        simp only [Ticker.afterAnswer] at hr
        simp [hr, Except.map] at h
      | ok ds =>
        simp only [Ticker.afterAnswer] at hr
        simp only [hr, Except.map, Except.ok.injEq] at h
        subst h
        refine ⟨?_, ?_⟩
        · dsimp only; split <;> rfl
        · dsimp only; split <;> rfl

/-- **The tick-equation invariant** of the closed system. -/
structure EqInv (w : Wiring) (react : React Val) (t : SimTime) (roots : List Comp)
    (s : TickSys Val) : Prop where
  tk_roots : s.tk.roots = roots
  pre : EqPre w react t roots s.tk.inputs s.trace

theorem EqInv.init {w : Wiring} (react : React Val) {t : SimTime} {roots : List Comp}
    {s : TickSys Val} (h : TickSys.init w t roots = .ok s) : EqInv w react t roots s := by
  obtain ⟨ds, hs, _, _, _, _, htr⟩ := TickSys.init_eq_ok h
  obtain ⟨hro, hin⟩ := TickSys.init_tk h
  refine ⟨hro, ?_⟩
  have := EqPre.schedule (tk := (Ticker.startTick w t roots : Ticker Val))
    (EqPre.start w react t roots) rfl rfl hs
  rw [hin, htr]
  simpa [Ticker.startTick] using this

theorem EqInv.step {w : Wiring} (hw : RouterOK w) {react : React Val} (hr : ReactWF react)
    {t : SimTime} {roots : List Comp} {s s' : TickSys Val} {i : Nat} (hi : TickInv w t roots s)
    (hs : EqInv w react t roots s) (h : s.step w react i = some (.ok s')) :
    EqInv w react t roots s' := by
  obtain ⟨d, ds, hd, _, _, hsl, _, _, _, _, htr⟩ := TickSys.step_eq_ok h
  obtain ⟨hro, hin⟩ := TickSys.step_tk h hd
  refine ⟨hro.trans hs.tk_roots, ?_⟩
  have := EqPre.schedule (tk := s.tk.afterAnswer w d.comp (answerOf react d))
    (hs.pre.answer hw hr hi.pre (List.mem_of_getElem? hd)) hs.tk_roots hi.time hsl
  rw [hin, htr]
  exact this

theorem TickSys.Reachable.eqInv {w : Wiring} (hw : RouterOK w) {react : React Val}
    (hr : ReactWF react) {t : SimTime} {roots : List Comp} {s : TickSys Val}
    (hs : s.Reachable w react t roots) : EqInv w react t roots s := by
  induction hs with
  | init h => exact EqInv.init react h
  | step hs' h ih => exact ih.step hw hr hs'.inv h

/-! ### run-independent description of a dispatch -/

/-- input port `q` of `c` is fed `v` by the reaction of its source to the dispatch the source
received in `tr` (no reference to positions in the trace). -/
def Fed (w : Wiring) (react : React Val) (tr : List (Ev Val)) (c : Comp) (q : Port) (v : Val) :
    Prop :=
  ∃ a p d, w.Conn a p c q ∧ dispatchOf tr a = some d ∧ alookup (answerOf react d) p = some v

/-- two dispatches of the same component in a reachable trace coincide. -/
theorem PreInv.dispatch_unique {w : Wiring} {t : SimTime} {roots : List Comp}
    {tu : List (Comp × Bool)} {pending : List (Dispatch Val)} {trace : List (Ev Val)}
    (h : PreInv w t roots tu pending trace) {d d' : Dispatch Val} (hd : Ev.dispatch d ∈ trace)
    (hd' : Ev.dispatch d' ∈ trace) (hc : d.comp = d'.comp) : d = d' := by
  have h1 := dispatchOf_eq_of_mem (h.count d.comp).1 hd
  have h2 := dispatchOf_eq_of_mem (h.count d'.comp).1 hd'
  rw [hc, h2] at h1
  exact (Option.some.inj h1).symm

/-- at a dispatch, "changed by an earlier answer" is the same as "fed by the source's
reaction": all in-extent sources have answered before (C01), the others never answer. -/
theorem changed_iff_fed {w : Wiring} (hw : RouterOK w) {react : React Val} {t : SimTime}
    {roots : List Comp} {s : TickSys Val} (hi : TickInv w t roots s)
    (he : EqInv w react t roots s) {pre post : List (Ev Val)} {d : Dispatch Val}
    (htr : s.trace = pre ++ Ev.dispatch d :: post) (q : Port) (v : Val) :
    Changed w pre d.comp q v ↔ Fed w react s.trace d.comp q v := by
  have hdm : Ev.dispatch d ∈ s.trace := by rw [htr]; simp
  constructor
  · rintro ⟨a, chs, p, hm, hc, hp⟩
    have hm' : Ev.answer a chs ∈ s.trace := by rw [htr]; exact List.mem_append_left _ hm
    obtain ⟨d', hd', rfl, rfl⟩ := he.pre.ans a chs hm'
    exact ⟨_, p, d', hc, dispatchOf_eq_of_mem (hi.pre.count _).1 hd', hp⟩
  · rintro ⟨a, p, d', hc, hdo, hp⟩
    obtain ⟨hd', rfl⟩ := dispatchOf_eq_some hdo
    obtain ⟨us, hus⟩ := Option.isSome_iff_exists.1 (he.pre.ups d hdm)
    have hau : d'.comp ∈ us := (hw.ups_edge _ us hus _).2 ⟨p, q, hc⟩
    obtain ⟨ch, hch⟩ := hi.pre.order pre d post htr us hus _ hau (hi.pre.disp_ext d' hd').1
    have hch' : Ev.answer d'.comp ch ∈ s.trace := by rw [htr]; exact List.mem_append_left _ hch
    obtain ⟨d'', hd'', hc'', rfl⟩ := he.pre.ans _ ch hch'
    have := hi.pre.dispatch_unique hd'' hd' hc''
    subst this
    exact ⟨_, _, p, hch, hc, hp⟩

/-- **what a dispatch is**, in run-independent terms: the component dispatched to is known to
the inverse tree, and it gets an `Input` carrying exactly the ports fed by its sources'
reactions if it is a root or some port is fed, a `Skip` otherwise. -/
theorem dispatch_spec {w : Wiring} (hw : RouterOK w) {react : React Val} (hr : ReactWF react)
    {t : SimTime} {roots : List Comp} {s : TickSys Val} (hs : s.Reachable w react t roots)
    {c : Comp} {d : Dispatch Val} (hd : dispatchOf s.trace c = some d) :
    c ∈ extent w roots ∧ (∃ us, w.ups c = some us) ∧
      ((∃ ins, d = .input c t ins ∧ (c ∈ roots ∨ ∃ q v, Fed w react s.trace c q v) ∧
          ∀ q v, alookup ins q = some v ↔ Fed w react s.trace c q v) ∨
        (d = .skip c t ∧ c ∉ roots ∧ ∀ q v, ¬ Fed w react s.trace c q v)) := by
  have hi := hs.inv
  have he := hs.eqInv hw hr
  obtain ⟨hm, rfl⟩ := dispatchOf_eq_some hd
  obtain ⟨pre, post, htr⟩ := List.append_of_mem hm
  refine ⟨(hi.pre.disp_ext d hm).1, Option.isSome_iff_exists.1 (he.pre.ups d hm), ?_⟩
  have hcf := changed_iff_fed hw hi he htr
  rcases (he.pre.dec pre d post htr).spec with ⟨ins, h1, h2, h3⟩ | ⟨h1, h2, h3⟩
  · refine Or.inl ⟨ins, h1, ?_, fun q v => (h3 q v).trans (hcf q v)⟩
    rcases h2 with h2 | ⟨q, v, h2⟩
    · exact Or.inl h2
    · exact Or.inr ⟨q, v, (hcf q v).1 h2⟩
  · exact Or.inr ⟨h1, h2, fun q v hf => h3 q v ((hcf q v).2 hf)⟩

/-- in a complete run exactly the members of the extent have been dispatched. -/
theorem dispatchOf_eq_none_iff_of_complete {w : Wiring} (hw : RouterOK w) {react : React Val}
    (hr : ReactWF react) {t : SimTime} {roots : List Comp} {s : TickSys Val}
    (hs : s.Reachable w react t roots) (hf : s.tk.toUpdate = []) (c : Comp) :
    dispatchOf s.trace c = none ↔ c ∉ extent w roots := by
  have hi := hs.inv
  have he := hs.eqInv hw hr
  constructor
  · intro hn hc
    obtain ⟨ch, hch⟩ := (hi.pre.resolved c hc).1 (by rw [hf]; rfl)
    obtain ⟨d, hd, hdc, _⟩ := he.pre.ans c ch hch
    exact dispatchOf_eq_none_iff.1 hn d hd hdc
  · intro hc
    rw [dispatchOf_eq_none_iff]
    intro d hd hdc
    exact hc (hdc ▸ (hi.pre.disp_ext d hd).1)

/-! ### schedule independence -/

/-- the relation asserted by `tick_deterministic` between the dispatches of a component in
two runs. -/
def SameDispatch (o1 o2 : Option (Dispatch Val)) : Prop :=
  match o1, o2 with
  | some d1, some d2 => Dispatch.Equiv d1 d2
  | none, none => True
  | _, _ => False

theorem Dispatch.Equiv.answerOf_eq {react : React Val} (hext : ReactExt react)
    {d1 d2 : Dispatch Val} (h : Dispatch.Equiv d1 d2) : answerOf react d1 = answerOf react d2 := by
  cases d1 <;> cases d2 <;> simp only [Dispatch.Equiv] at h
  · obtain ⟨rfl, _, h⟩ := h
    exact hext _ _ _ h
  · rfl

theorem SameDispatch.fwd {react : React Val} (hext : ReactExt react)
    {o1 o2 : Option (Dispatch Val)} (h : SameDispatch o1 o2) {d : Dispatch Val}
    (hd : o1 = some d) : ∃ d', o2 = some d' ∧ answerOf react d = answerOf react d' := by
  subst hd
  cases o2 with
  | none => exact h.elim
  | some d' => exact ⟨d', rfl, Dispatch.Equiv.answerOf_eq hext h⟩

theorem SameDispatch.bwd {react : React Val} (hext : ReactExt react)
    {o1 o2 : Option (Dispatch Val)} (h : SameDispatch o1 o2) {d' : Dispatch Val}
    (hd : o2 = some d') : ∃ d, o1 = some d ∧ answerOf react d = answerOf react d' := by
  subst hd
  cases o1 with
  | none => exact h.elim
  | some d => exact ⟨d, rfl, Dispatch.Equiv.answerOf_eq hext h⟩

/-- **schedule independence of one tick**: in two complete runs of the same tick every
component has the same dispatch up to the order of the changes. -/
theorem sameDispatch_of_complete {w : Wiring} (hw : RouterOK w) (hacyc : w.Acyclic)
    {react : React Val} (hr : ReactWF react) (hext : ReactExt react) {t : SimTime}
    {roots : List Comp} {s1 s2 : TickSys Val} (h1 : s1.Reachable w react t roots)
    (h2 : s2.Reachable w react t roots) (hf1 : s1.tk.toUpdate = []) (hf2 : s2.tk.toUpdate = [])
    (c : Comp) : SameDispatch (dispatchOf s1.trace c) (dispatchOf s2.trace c) := by
  obtain ⟨rank, hrank⟩ := hacyc
  suffices key : ∀ n c, rank c < n →
      SameDispatch (dispatchOf s1.trace c) (dispatchOf s2.trace c) from
    key _ c (Nat.lt_succ_self _)
  intro n
  induction n with
  | zero => intro c hc; omega
  | succ n ih =>
    intro c hc
    cases h1c : dispatchOf s1.trace c with
    | none =>
      have hce := (dispatchOf_eq_none_iff_of_complete hw hr h1 hf1 c).1 h1c
      rw [(dispatchOf_eq_none_iff_of_complete hw hr h2 hf2 c).2 hce]
      trivial
    | some d1 =>
      obtain ⟨hce, ⟨us, hus⟩, hsp1⟩ := dispatch_spec hw hr h1 h1c
      cases h2c : dispatchOf s2.trace c with
      | none => exact absurd hce ((dispatchOf_eq_none_iff_of_complete hw hr h2 hf2 c).1 h2c)
      | some d2 =>
        obtain ⟨_, _, hsp2⟩ := dispatch_spec hw hr h2 h2c
        have hP : ∀ a p q, w.Conn a p c q →
            SameDispatch (dispatchOf s1.trace a) (dispatchOf s2.trace a) := by
          intro a p q hconn
          have := hrank c us a hus ((hw.ups_edge c us hus a).2 ⟨p, q, hconn⟩)
          exact ih a (by omega)
        have hfed : ∀ q v, Fed w react s1.trace c q v ↔ Fed w react s2.trace c q v := by
          intro q v
          constructor
          · rintro ⟨a, p, d, hconn, hd, hv⟩
            obtain ⟨d', hd', he⟩ := (hP a p q hconn).fwd hext hd
            exact ⟨a, p, d', hconn, hd', he ▸ hv⟩
          · rintro ⟨a, p, d', hconn, hd', hv⟩
            obtain ⟨d, hd, he⟩ := (hP a p q hconn).bwd hext hd'
            exact ⟨a, p, d, hconn, hd, he ▸ hv⟩
        rcases hsp1 with ⟨i1, rfl, hr1, hi1⟩ | ⟨rfl, hn1, hno1⟩ <;>
          rcases hsp2 with ⟨i2, rfl, hr2, hi2⟩ | ⟨rfl, hn2, hno2⟩
        · exact ⟨rfl, rfl, fun q => option_ext_some (fun v =>
            (hi1 q v).trans ((hfed q v).trans (hi2 q v).symm))⟩
        · rcases hr1 with hr1 | ⟨q, v, hr1⟩
          · exact absurd hr1 hn2
          · exact absurd ((hfed q v).1 hr1) (hno2 q v)
        · rcases hr2 with hr2 | ⟨q, v, hr2⟩
          · exact absurd hr2 hn1
          · exact absurd ((hfed q v).2 hr2) (hno1 q v)
        · exact ⟨rfl, rfl⟩

end Tickit
