/-
Preservation of the stop protocol's invariant (`Lemmas/StopProtocolLemmas.lean`) by the
components' and the handlers' actions, and for every reachable state.
-/
import TickitModel.Lemmas.StopProtocolLemmas

namespace Tickit

variable {cfg : StopCfg} {s s' : StopSt}

theorem StopInv.answer (h : StopInv cfg s) (c : Comp) (hc : c ∈ s.toUpdate) (hf : c ∉ s.failed) :
    StopInv cfg { s with toUpdate := s.toUpdate.filter (· ≠ c),
                         finished := s.finished || (s.toUpdate.filter (· ≠ c)).isEmpty } := by
  have htu : s.toUpdate ≠ [] := List.ne_nil_of_mem hc
  refine ⟨h.errOfAfter, h.fanoutCover, h.sentOfErr, h.sentTracked, ?_, h.errPc, ?_, ?_, h.ident,
    ?_, ?_, h.noSpurious, h.stoppedSent, h.inboxSent⟩
  · intro hr he
    obtain ⟨hp, hfin⟩ := h.inTick hr he
    refine ⟨hp, ?_⟩
    -- a failed component never answers: the tick cannot complete
    obtain ⟨x, hx⟩ := List.exists_mem_of_ne_nil _ (h.failed_ne_nil hr)
    have hxt : x ∈ s.toUpdate.filter (· ≠ c) := by
      refine List.mem_filter.mpr ⟨h.failedTu x hx, ?_⟩
      have : x ≠ c := fun e => hf (e ▸ hx)
      simpa using this
    have : (s.toUpdate.filter (· ≠ c)).isEmpty = false := by
      cases hl : s.toUpdate.filter (· ≠ c) with
      | nil => rw [hl] at hxt; cases hxt
      | cons _ _ => rfl
    show (s.finished || (s.toUpdate.filter (· ≠ c)).isEmpty) = false
    rw [hfin, this]; rfl
  · intro hr
    obtain ⟨he, hq1, hq2⟩ := h.quiet hr
    obtain ⟨hp, hfin⟩ := hq1 htu
    refine ⟨he, ?_, fun _ => hp⟩
    intro hne
    refine ⟨hp, ?_⟩
    show (s.finished || (s.toUpdate.filter (· ≠ c)).isEmpty) = false
    have : (s.toUpdate.filter (· ≠ c)).isEmpty = false := by
      cases hl : s.toUpdate.filter (· ≠ c) with
      | nil => exact absurd hl hne
      | cons _ _ => rfl
    rw [hfin, this]; rfl
  · intro hp hfin
    have hfin' : (s.finished || (s.toUpdate.filter (· ≠ c)).isEmpty) = false := hfin
    have : s.finished = false := by
      cases hf' : s.finished with
      | false => rfl
      | true => rw [hf'] at hfin'; simp at hfin'
    exact h.doneRel hp this
  · intro x hx
    exact h.tuComps x (List.mem_filter.mp hx).1
  · intro x hx
    refine List.mem_filter.mpr ⟨h.failedTu x hx, ?_⟩
    have : x ≠ c := fun e => hf (e ▸ hx)
    simpa using this

theorem StopInv.fail (h : StopInv cfg s) (c : Comp) (hc : c ∈ s.toUpdate) (_hf : c ∉ s.failed) :
    StopInv cfg { s with failed := s.failed ++ [c], reports := s.reports ++ [⟨c, .start⟩] } := by
  have htu : s.toUpdate ≠ [] := List.ne_nil_of_mem hc
  refine ⟨?_, ?_, h.sentOfErr, h.sentTracked, ?_, h.errPc, ?_, ?_, ?_, h.tuComps, ?_, ?_,
    h.stoppedSent, h.inboxSent⟩
  · intro r hr hpc
    rcases List.mem_append.mp hr with hr | hr
    · exact h.errOfAfter r hr hpc
    · simp only [List.mem_singleton] at hr
      subst hr
      rcases hpc with hpc | hpc <;> cases hpc
  · intro r hr p hpc
    rcases List.mem_append.mp hr with hr | hr
    · exact h.fanoutCover r hr p hpc
    · simp only [List.mem_singleton] at hr
      subst hr
      cases hpc
  · intro _ he
    by_cases hr : s.reports = []
    · exact (h.quiet hr).2.1 htu
    · exact h.inTick hr he
  · intro hr
    simp at hr
  · intro hp hfin r hr
    rcases List.mem_append.mp hr with hr | hr
    · exact h.doneRel hp hfin r hr
    · simp only [List.mem_singleton] at hr
      subst hr
      intro hpc; cases hpc
  · show (s.reports ++ [(⟨c, .start⟩ : StopReport)]).map StopReport.src = s.failed ++ [c]
    rw [List.map_append]
    have hi : s.reports.map StopReport.src = s.failed := h.ident
    rw [hi]; rfl
  · intro x hx
    rcases List.mem_append.mp hx with hx | hx
    · exact h.failedTu x hx
    · simp only [List.mem_singleton] at hx
      subst hx; exact hc
  · intro hr
    simp at hr

theorem StopInv.handler (hcfg : cfg.stopOnce = false) (h : StopInv cfg s) (i : Nat)
    (hs : s.handlerStep cfg i = some s') : StopInv cfg s' := by
  unfold StopSt.handlerStep at hs
  split at hs
  · cases hs
  · rename_i r hi
    have hrm : r ∈ s.reports := List.mem_of_getElem? hi
    have hne : s.reports ≠ [] := stop_ne_nil_of_getElem? hi
    have hset : ∀ x, s.reports.set i x ≠ [] := fun x hx =>
      hne ((List.set_eq_nil_iff i x).mp hx)
    have hid : ∀ pc, (s.reports.set i ⟨r.src, pc⟩).map (·.src) = s.failed := fun pc => by
      rw [stop_map_set_same (·.src) s.reports i r ⟨r.src, pc⟩ hi rfl, h.ident]
    split at hs
    · -- start
      rw [hcfg] at hs
      simp only [Bool.false_and, Bool.false_eq_true, ↓reduceIte, Bool.or_false,
        Option.some.injEq] at hs
      subst hs
      refine ⟨?_, ?_, h.sentOfErr, h.sentTracked, ?_, h.errPc, ?_, ?_, hid _, h.tuComps,
        h.failedTu, ?_, h.stoppedSent, h.inboxSent⟩
      · intro x hx hpc
        rcases List.mem_or_eq_of_mem_set hx with hx | hx
        · exact h.errOfAfter x hx hpc
        · subst hx; rcases hpc with hpc | hpc <;> cases hpc
      · intro x hx p hpc c hc
        rcases List.mem_or_eq_of_mem_set hx with hx | hx
        · exact h.fanoutCover x hx p hpc c hc
        · subst hx; cases hpc; exact Or.inl hc
      · intro _ he; exact h.inTick hne he
      · intro hr; exact absurd hr (hset _)
      · intro hp hfin x hx
        rcases List.mem_or_eq_of_mem_set hx with hx | hx
        · exact h.doneRel hp hfin x hx
        · subst hx; intro hpc; cases hpc
      · intro hr; exact absurd hr (hset _)
    · -- fanout []: `self.error.set()`
      rename_i hpc
      cases hs
      have hall : ∀ c ∈ cfg.comps, c ∈ s.stopSent := fun c hc => by
        rcases h.fanoutCover r hrm [] hpc c hc with hh | hh
        · cases hh
        · exact hh
      refine ⟨fun _ _ _ => rfl, ?_, fun _ => hall, h.sentTracked, ?_, ?_, ?_, ?_, hid _, h.tuComps,
        h.failedTu, ?_, h.stoppedSent, h.inboxSent⟩
      · intro x hx p hpc' c hc
        exact Or.inr (hall c hc)
      · intro _ he; cases he
      · intro _
        cases he : s.error with
        | true => exact h.errPc he
        | false => exact Or.inl (h.inTick hne he).1
      · intro hr; exact absurd hr (hset _)
      · intro hp hfin x hx
        rcases List.mem_or_eq_of_mem_set hx with hx | hx
        · exact h.doneRel hp hfin x hx
        · subst hx; intro hpc'; cases hpc'
      · intro hr; exact absurd hr (hset _)
    · cases hs
    · -- afterSuper: `self.ticker.finished.set()`
      rename_i hpc
      cases hs
      have he : s.error = true := h.errOfAfter r hrm (Or.inl hpc)
      refine ⟨?_, ?_, h.sentOfErr, h.sentTracked, ?_, h.errPc, ?_, ?_, hid _, h.tuComps,
        h.failedTu, ?_, h.stoppedSent, h.inboxSent⟩
      · intro _ _ _; exact he
      · intro x hx p hpc' c hc
        exact Or.inr (h.sentOfErr he c hc)
      · intro _ he'; rw [he] at he'; cases he'
      · intro hr; exact absurd hr (hset _)
      · intro _ hfin; cases hfin
      · intro hr; exact absurd hr (hset _)
    · cases hs

theorem StopInv.produce (h : StopInv cfg s) (i : Nat) (c : Comp)
    (hs : s.produceStep i c = some s') : StopInv cfg s' := by
  unfold StopSt.produceStep at hs
  split at hs
  · rename_i src p hi
    have hrm : (⟨src, .fanout p⟩ : StopReport) ∈ s.reports := List.mem_of_getElem? hi
    have hne : s.reports ≠ [] := stop_ne_nil_of_getElem? hi
    have hset : ∀ x, s.reports.set i x ≠ [] := fun x hx =>
      hne ((List.set_eq_nil_iff i x).mp hx)
    split at hs
    · rename_i hc
      cases hs
      refine ⟨?_, ?_, ?_, ?_, ?_, h.errPc, ?_, ?_, ?_, h.tuComps, h.failedTu, ?_, ?_, ?_⟩
      · intro x hx hpc
        rcases List.mem_or_eq_of_mem_set hx with hx | hx
        · exact h.errOfAfter x hx hpc
        · subst hx; rcases hpc with hpc | hpc <;> cases hpc
      · intro x hx q hpc d hd
        rcases List.mem_or_eq_of_mem_set hx with hx | hx
        · rcases h.fanoutCover x hx q hpc d hd with hh | hh
          · exact Or.inl hh
          · exact Or.inr (List.mem_append_left _ hh)
        · subst hx
          cases hpc
          rcases h.fanoutCover _ hrm p rfl d hd with hh | hh
          · by_cases hdc : d = c
            · subst hdc; exact Or.inr (List.mem_append_right _ (List.mem_singleton.mpr rfl))
            · exact Or.inl ((List.mem_erase_of_ne hdc).mpr hh)
          · exact Or.inr (List.mem_append_left _ hh)
      · intro he d hd; exact List.mem_append_left _ (h.sentOfErr he d hd)
      · intro d hd
        rcases List.mem_append.mp hd with hd | hd
        · rcases h.sentTracked d hd with hh | hh
          · exact Or.inl (List.mem_append_left _ hh)
          · exact Or.inr hh
        · exact Or.inl (List.mem_append_right _ hd)
      · intro _ he; exact h.inTick hne he
      · intro hr; exact absurd hr (hset _)
      · intro hp hfin x hx
        rcases List.mem_or_eq_of_mem_set hx with hx | hx
        · exact h.doneRel hp hfin x hx
        · subst hx; intro hpc; cases hpc
      · show (s.reports.set i ⟨src, .fanout (p.erase c)⟩).map (·.src) = s.failed
        rw [stop_map_set_same (·.src) s.reports i ⟨src, .fanout p⟩ ⟨src, .fanout (p.erase c)⟩ hi rfl,
          h.ident]
      · intro hr; exact absurd hr (hset _)
      · intro d hd; exact List.mem_append_left _ (h.stoppedSent d hd)
      · intro d hd
        rcases List.mem_append.mp hd with hd | hd
        · exact List.mem_append_left _ (h.inboxSent d hd)
        · exact List.mem_append_right _ hd
    · cases hs
  · cases hs

theorem StopInv.deliver (h : StopInv cfg s) (c : Comp) (hc : c ∈ s.inbox) :
    StopInv cfg { s with inbox := s.inbox.erase c, stopped := c :: s.stopped } := by
  refine ⟨h.errOfAfter, h.fanoutCover, h.sentOfErr, ?_, h.inTick, h.errPc, h.quiet, h.doneRel,
    h.ident, h.tuComps, h.failedTu, h.noSpurious, ?_, ?_⟩
  · intro d hd
    rcases h.sentTracked d hd with hh | hh
    · by_cases hdc : d = c
      · subst hdc; exact Or.inr (List.mem_cons_self ..)
      · exact Or.inl ((List.mem_erase_of_ne hdc).mpr hh)
    · exact Or.inr (List.mem_cons_of_mem _ hh)
  · intro d hd
    rcases List.mem_cons.mp hd with hd | hd
    · subst hd; exact h.inboxSent d hc
    · exact h.stoppedSent d hd
  · intro d hd
    exact h.inboxSent d (List.mem_of_mem_erase hd)

/-- the invariant is inductive. -/
theorem StopInv.step (hcfg : cfg.stopOnce = false) (h : StopInv cfg s) (a : StopAct)
    (hs : s.step cfg a = some s') : StopInv cfg s' := by
  cases a with
  | wakeup =>
    simp only [StopSt.step, Option.some.injEq] at hs
    subst hs; exact h.wakeup
  | sleepExpires cs left =>
    simp only [StopSt.step] at hs
    split at hs
    · rename_i hc
      cases hs
      exact h.sleepExpires hc.1 cs left hc.2.2
    · cases hs
  | loop => exact h.loop hs
  | answer c =>
    simp only [StopSt.step] at hs
    split at hs
    · rename_i hc
      cases hs
      exact h.answer c hc.1 hc.2
    · cases hs
  | fail c =>
    simp only [StopSt.step] at hs
    split at hs
    · rename_i hc
      cases hs
      exact h.fail c hc.1 hc.2
    · cases hs
  | handler i => exact h.handler hcfg i hs
  | produceStop i c => exact h.produce i c hs
  | deliverStop c =>
    simp only [StopSt.step] at hs
    split at hs
    · rename_i hc
      cases hs
      exact h.deliver c hc
    · cases hs

theorem StopReach.inv (hcfg : cfg.stopOnce = false) (h : StopReach cfg s) : StopInv cfg s := by
  induction h with
  | init => exact StopInv.init cfg
  | step _ hs ih => exact ih.step hcfg _ hs

theorem StopInv.exec (hcfg : cfg.stopOnce = false) :
    ∀ (as : List StopAct) {s s' : StopSt}, StopInv cfg s → s.exec cfg as = some s' → StopInv cfg s'
  | [], s, s', h, hs => by
    simp only [StopSt.exec, Option.some.injEq] at hs
    subst hs; exact h
  | a :: as, s, s', h, hs => by
    simp only [StopSt.exec] at hs
    split at hs
    · rename_i s1 h1
      exact StopInv.exec hcfg as (h.step hcfg a h1) hs
    · cases hs

theorem StopReach.exec : ∀ (as : List StopAct) {s s' : StopSt},
    StopReach cfg s → s.exec cfg as = some s' → StopReach cfg s'
  | [], s, s', h, hs => by
    simp only [StopSt.exec, Option.some.injEq] at hs
    subst hs; exact h
  | a :: as, s, s', h, hs => by
    simp only [StopSt.exec] at hs
    split at hs
    · rename_i s1 h1
      exact StopReach.exec as (h.step h1) hs
    · cases hs

end Tickit
