/-
Termination of the stop protocol (`Core/StopProtocol.lean`, `stopOnce = false`): the measure
`StopSt.measure` never increases, strictly decreases with every step of the scheduler or the bus
once a failure was reported, and a state without any such step enabled is one in which the run
call has returned.
-/
import TickitModel.Lemmas.StopProtocolInv

namespace Tickit

variable {cfg : StopCfg} {s s' : StopSt}

theorem StopSt.step_reports_length (a : StopAct) (hs : s.step cfg a = some s') :
    s.reports.length ≤ s'.reports.length := by
  cases a with
  | wakeup => simp only [StopSt.step, Option.some.injEq] at hs; subst hs; exact Nat.le_refl _
  | sleepExpires cs left =>
    simp only [StopSt.step] at hs
    split at hs <;> cases hs
    exact Nat.le_refl _
  | loop =>
    simp only [StopSt.step, StopSt.loopStep] at hs
    repeat' split at hs
    all_goals first | cases hs; exact Nat.le_refl _ | cases hs
  | answer c =>
    simp only [StopSt.step] at hs
    split at hs <;> cases hs
    exact Nat.le_refl _
  | fail c =>
    simp only [StopSt.step] at hs
    split at hs <;> cases hs
    simp
  | handler i =>
    simp only [StopSt.step, StopSt.handlerStep] at hs
    repeat' split at hs
    all_goals first | cases hs; simp | cases hs
  | produceStop i c =>
    simp only [StopSt.step, StopSt.produceStep] at hs
    repeat' split at hs
    all_goals first | cases hs; simp | cases hs
  | deliverStop c =>
    simp only [StopSt.step] at hs
    split at hs <;> cases hs
    exact Nat.le_refl _

theorem StopSt.step_reports_ne_nil (a : StopAct) (hs : s.step cfg a = some s')
    (h : s.reports ≠ []) : s'.reports ≠ [] := by
  have := StopSt.step_reports_length a hs
  intro he
  rw [he] at this
  cases hl : s.reports with
  | nil => exact h hl
  | cons _ _ => rw [hl] at this; simp at this

/-- **the measure.** No action increases it; every step of the scheduler or of the bus (the run
loop, a handler statement, a `StopComponent` producer, a delivery) strictly decreases it once a
failure was reported. -/
theorem StopInv.measure_step (h : StopInv cfg s) (hne : s.reports ≠ []) (a : StopAct)
    (hs : s.step cfg a = some s') :
    s'.measure cfg ≤ s.measure cfg ∧ (a.isSys = true → s'.measure cfg < s.measure cfg) := by
  cases a with
  | wakeup =>
    simp only [StopSt.step, Option.some.injEq] at hs
    subst hs
    exact ⟨Nat.le_refl _, fun hh => by cases hh⟩
  | sleepExpires cs left =>
    simp only [StopSt.step] at hs
    split at hs
    · rename_i hc
      rcases h.pc_of_reports hne with hp | hp | hp <;> rw [hp] at hc <;> exact absurd hc.1 (by simp)
    · cases hs
  | loop =>
    simp only [StopSt.step, StopSt.loopStep] at hs
    split at hs
    · rename_i hpc
      have he : s.error = true := by
        cases he : s.error with
        | true => rfl
        | false => have := (h.inTick hne he).1; rw [hpc] at this; cases this
      rw [he] at hs
      simp only [↓reduceIte, Option.some.injEq] at hs
      subst hs
      simp only [StopSt.measure, StopSt.unfailed, hpc, SLoopPc.cost]
      omega
    · rename_i hpc
      rcases h.pc_of_reports hne with hp | hp | hp <;> rw [hp] at hpc <;> cases hpc
    · rename_i hpc
      rcases h.pc_of_reports hne with hp | hp | hp <;> rw [hp] at hpc <;> cases hpc
    · rename_i hpc
      split at hs
      · cases hs
        simp only [StopSt.measure, StopSt.unfailed, hpc, SLoopPc.cost]
        omega
      · cases hs
    · cases hs
  | answer c =>
    simp only [StopSt.step] at hs
    split at hs
    · cases hs
      refine ⟨?_, fun hh => by cases hh⟩
      have := stop_filter_filter_le c s.failed s.toUpdate
      have := Nat.mul_le_mul_right (2 * cfg.comps.length + 4) this
      simp only [StopSt.measure, StopSt.unfailed]
      omega
    · cases hs
  | fail c =>
    simp only [StopSt.step] at hs
    split at hs
    · rename_i hc
      cases hs
      refine ⟨?_, fun hh => by cases hh⟩
      have h1 := stop_filter_fail_lt c s.failed s.toUpdate hc.1 hc.2
      have h2 := Nat.mul_le_mul_right (2 * cfg.comps.length + 4) (Nat.succ_le_of_lt h1)
      rw [Nat.succ_mul] at h2
      simp only [StopSt.measure, StopSt.unfailed, List.map_append, List.sum_append, List.map_cons,
        List.map_nil, List.sum_cons, List.sum_nil, StopReport.cost, HPc.cost]
      omega
    · cases hs
  | handler i =>
    simp only [StopSt.step, StopSt.handlerStep] at hs
    split at hs
    · cases hs
    · rename_i r hi
      have hsum := fun r' => stop_sum_map_set (StopReport.cost cfg.comps.length) s.reports i r r' hi
      split at hs
      · rename_i hpc
        split at hs
        · cases hs
          have := hsum ⟨r.src, .afterSuper⟩
          simp only [StopReport.cost, hpc, HPc.cost] at this
          simp only [StopSt.measure, StopSt.unfailed, StopAct.isSys]
          omega
        · cases hs
          have := hsum ⟨r.src, .fanout cfg.comps⟩
          simp only [StopReport.cost, hpc, HPc.cost] at this
          simp only [StopSt.measure, StopSt.unfailed, StopAct.isSys]
          omega
      · rename_i hpc
        cases hs
        have := hsum ⟨r.src, .afterSuper⟩
        simp only [StopReport.cost, hpc, HPc.cost, List.length_nil] at this
        simp only [StopSt.measure, StopSt.unfailed, StopAct.isSys]
        omega
      · cases hs
      · rename_i hpc
        cases hs
        have := hsum ⟨r.src, .done⟩
        simp only [StopReport.cost, hpc, HPc.cost] at this
        simp only [StopSt.measure, StopSt.unfailed, StopAct.isSys]
        omega
      · cases hs
  | produceStop i c =>
    simp only [StopSt.step, StopSt.produceStep] at hs
    split at hs
    · rename_i src p hi
      split at hs
      · rename_i hc
        cases hs
        have := stop_sum_map_set (StopReport.cost cfg.comps.length) s.reports i _
          ⟨src, .fanout (p.erase c)⟩ hi
        simp only [StopReport.cost, HPc.cost, List.length_erase_of_mem hc] at this
        have hpos : 0 < p.length := List.length_pos_of_mem hc
        simp only [StopSt.measure, StopSt.unfailed, StopAct.isSys, List.length_append,
          List.length_cons, List.length_nil]
        omega
      · cases hs
    · cases hs
  | deliverStop c =>
    simp only [StopSt.step] at hs
    split at hs
    · rename_i hc
      cases hs
      have hpos : 0 < s.inbox.length := List.length_pos_of_mem hc
      simp only [StopSt.measure, StopSt.unfailed, StopAct.isSys, List.length_erase_of_mem hc]
      omega
    · cases hs

/-- no step of the scheduler or of the bus is enabled. -/
def StopSt.quiescent (cfg : StopCfg) (s : StopSt) : Prop :=
  ∀ a : StopAct, a.isSys = true → s.step cfg a = none

/-- **no deadlock short of the goal**: once a failure was reported, a state in which neither the
run loop, nor a handler, nor a producer, nor a delivery can move is a state in which the run
loop has exited and every component was stopped. -/
theorem StopInv.quiescent_returned (h : StopInv cfg s) (hne : s.reports ≠ [])
    (hq : s.quiescent cfg) : s.runReturned cfg := by
  -- every handler has returned
  have hdone : ∀ r ∈ s.reports, r.pc = .done := by
    intro r hr
    obtain ⟨i, hi⟩ := List.getElem?_of_mem hr
    have h1 := hq (.handler i) rfl
    simp only [StopSt.step, StopSt.handlerStep, hi] at h1
    cases hpc : r.pc with
    | start => rw [hpc] at h1; simp only [] at h1; split at h1 <;> cases h1
    | fanout p =>
      cases p with
      | nil => rw [hpc] at h1; cases h1
      | cons c p =>
        have h2 := hq (.produceStop i c) rfl
        obtain ⟨src, pc⟩ := r
        simp only at hpc
        subst hpc
        simp [StopSt.step, StopSt.produceStep, hi] at h2
    | afterSuper => rw [hpc] at h1; cases h1
    | done => rfl
  obtain ⟨r, hr⟩ := List.exists_mem_of_ne_nil _ hne
  have he : s.error = true := h.errOfAfter r hr (Or.inr (hdone r hr))
  have hin : s.inbox = [] := by
    cases hl : s.inbox with
    | nil => rfl
    | cons c l =>
      have h2 := hq (.deliverStop c) rfl
      simp [StopSt.step, hl] at h2
  refine ⟨?_, ?_⟩
  · have hl := hq .loop rfl
    simp only [StopSt.step, StopSt.loopStep] at hl
    rcases h.pc_of_reports hne with hp | hp | hp
    · have hfin : s.finished = true := by
        cases hf : s.finished with
        | true => rfl
        | false => exact absurd (hdone r hr) (h.doneRel hp hf r hr)
      rw [hp] at hl
      simp [hfin] at hl
    · rw [hp] at hl
      simp [he] at hl
    · exact hp
  · intro c hc
    rcases h.sentTracked c (h.sentOfErr he c hc) with hh | hh
    · rw [hin] at hh; cases hh
    · exact hh

/-- once the run call has returned nothing undoes it. -/
theorem StopSt.runReturned_step (a : StopAct) (hs : s.step cfg a = some s')
    (h : s.runReturned cfg) : s'.runReturned cfg := by
  obtain ⟨hp, hst⟩ := h
  cases a with
  | wakeup => simp only [StopSt.step, Option.some.injEq] at hs; subst hs; exact ⟨hp, hst⟩
  | sleepExpires cs left =>
    simp only [StopSt.step, hp] at hs
    simp at hs
  | loop => simp [StopSt.step, StopSt.loopStep, hp] at hs
  | answer c =>
    simp only [StopSt.step] at hs
    split at hs <;> cases hs
    exact ⟨hp, hst⟩
  | fail c =>
    simp only [StopSt.step] at hs
    split at hs <;> cases hs
    exact ⟨hp, hst⟩
  | handler i =>
    simp only [StopSt.step, StopSt.handlerStep] at hs
    repeat' split at hs
    all_goals first | cases hs; exact ⟨hp, hst⟩ | cases hs
  | produceStop i c =>
    simp only [StopSt.step, StopSt.produceStep] at hs
    repeat' split at hs
    all_goals first | cases hs; exact ⟨hp, hst⟩ | cases hs
  | deliverStop c =>
    simp only [StopSt.step] at hs
    split at hs <;> cases hs
    exact ⟨hp, fun d hd => List.mem_cons_of_mem _ (hst d hd)⟩

/-- number of scheduler / bus steps in an execution. -/
def stopCountSys (as : List StopAct) : Nat := (as.filter StopAct.isSys).length

/-- along every execution after a reported failure: (scheduler and bus steps taken) + (measure
of the state reached) ≤ (measure of the start). -/
theorem StopInv.exec_measure (hcfg : cfg.stopOnce = false) :
    ∀ (as : List StopAct) {s s' : StopSt}, StopInv cfg s → s.reports ≠ [] →
      s.exec cfg as = some s' → stopCountSys as + s'.measure cfg ≤ s.measure cfg
  | [], s, s', _, _, hs => by
    simp only [StopSt.exec, Option.some.injEq] at hs
    subst hs; simp [stopCountSys]
  | a :: as, s, s', h, hne, hs => by
    simp only [StopSt.exec] at hs
    split at hs
    · rename_i s1 h1
      have ih := StopInv.exec_measure hcfg as (h.step hcfg a h1)
        (StopSt.step_reports_ne_nil a h1 hne) hs
      have hm := h.measure_step hne a h1
      cases ha : a.isSys with
      | true =>
        have := hm.2 ha
        simp only [stopCountSys, List.filter_cons, ha, ↓reduceIte, List.length_cons] at ih ⊢
        omega
      | false =>
        have := hm.1
        simp only [stopCountSys, List.filter_cons, ha, Bool.false_eq_true, ↓reduceIte] at ih ⊢
        omega
    · cases hs

theorem StopSt.exec_reports_ne_nil :
    ∀ (as : List StopAct) {s s' : StopSt}, s.reports ≠ [] → s.exec cfg as = some s' →
      s'.reports ≠ []
  | [], s, s', h, hs => by
    simp only [StopSt.exec, Option.some.injEq] at hs
    subst hs; exact h
  | a :: as, s, s', h, hs => by
    simp only [StopSt.exec] at hs
    split at hs
    · rename_i s1 h1
      exact StopSt.exec_reports_ne_nil as (StopSt.step_reports_ne_nil a h1 h) hs
    · cases hs

/-! ### infinite schedules -/

theorem StopSt.sched_succ (σ : Nat → StopAct) (n : Nat) :
    s.sched cfg σ (n + 1) = ((s.sched cfg σ n).step cfg (σ n)).getD (s.sched cfg σ n) := rfl

theorem StopInv.sched (hcfg : cfg.stopOnce = false) (h : StopInv cfg s) (hne : s.reports ≠ [])
    (σ : Nat → StopAct) :
    ∀ n, StopInv cfg (s.sched cfg σ n) ∧ (s.sched cfg σ n).reports ≠ []
  | 0 => ⟨h, hne⟩
  | n + 1 => by
    obtain ⟨ih1, ih2⟩ := StopInv.sched hcfg h hne σ n
    rw [StopSt.sched_succ]
    cases hst : (s.sched cfg σ n).step cfg (σ n) with
    | none => exact ⟨ih1, ih2⟩
    | some s1 => exact ⟨ih1.step hcfg _ hst, StopSt.step_reports_ne_nil _ hst ih2⟩

theorem StopInv.sched_measure_succ (hcfg : cfg.stopOnce = false) (h : StopInv cfg s)
    (hne : s.reports ≠ []) (σ : Nat → StopAct) (n : Nat) :
    (s.sched cfg σ (n + 1)).measure cfg ≤ (s.sched cfg σ n).measure cfg := by
  obtain ⟨ih1, ih2⟩ := StopInv.sched hcfg h hne σ n
  rw [StopSt.sched_succ]
  cases hst : (s.sched cfg σ n).step cfg (σ n) with
  | none => exact Nat.le_refl _
  | some s1 => exact (ih1.measure_step ih2 _ hst).1

theorem StopInv.sched_measure_mono (hcfg : cfg.stopOnce = false) (h : StopInv cfg s)
    (hne : s.reports ≠ []) (σ : Nat → StopAct) (n : Nat) :
    ∀ k, (s.sched cfg σ (n + k)).measure cfg ≤ (s.sched cfg σ n).measure cfg
  | 0 => Nat.le_refl _
  | k + 1 => Nat.le_trans (StopInv.sched_measure_succ hcfg h hne σ (n + k))
      (StopInv.sched_measure_mono hcfg h hne σ n k)

theorem StopSt.runReturned_sched (σ : Nat → StopAct) (n : Nat)
    (h : (s.sched cfg σ n).runReturned cfg) : ∀ k, (s.sched cfg σ (n + k)).runReturned cfg
  | 0 => h
  | k + 1 => by
    have ih := StopSt.runReturned_sched σ n h k
    show (s.sched cfg σ (n + k + 1)).runReturned cfg
    rw [StopSt.sched_succ]
    cases hst : (s.sched cfg σ (n + k)).step cfg (σ (n + k)) with
    | none => exact ih
    | some s1 => exact StopSt.runReturned_step _ hst ih

/-- weak fairness towards the scheduler and the bus: whenever one of their steps is enabled, an
enabled one of their steps is eventually taken. -/
def StopSt.fair (cfg : StopCfg) (s : StopSt) (σ : Nat → StopAct) : Prop :=
  ∀ n, ¬ (s.sched cfg σ n).quiescent cfg →
    ∃ m, n ≤ m ∧ (σ m).isSys = true ∧ ((s.sched cfg σ m).step cfg (σ m)).isSome = true

theorem StopInv.fair_returns_aux (hcfg : cfg.stopOnce = false) (h : StopInv cfg s)
    (hne : s.reports ≠ []) (σ : Nat → StopAct) (hfair : s.fair cfg σ) :
    ∀ k n, (s.sched cfg σ n).measure cfg ≤ k → ∃ m, n ≤ m ∧ (s.sched cfg σ m).runReturned cfg := by
  intro k
  induction k with
  | zero =>
    intro n hk
    by_cases hq : (s.sched cfg σ n).quiescent cfg
    · obtain ⟨i1, i2⟩ := StopInv.sched hcfg h hne σ n
      exact ⟨n, Nat.le_refl _, i1.quiescent_returned i2 hq⟩
    · obtain ⟨m, hnm, hsys, hen⟩ := hfair n hq
      obtain ⟨i1, i2⟩ := StopInv.sched hcfg h hne σ m
      obtain ⟨s1, hs1⟩ := Option.isSome_iff_exists.mp hen
      have hlt := (i1.measure_step i2 _ hs1).2 hsys
      obtain ⟨d, rfl⟩ := Nat.exists_eq_add_of_le hnm
      have := StopInv.sched_measure_mono hcfg h hne σ n d
      omega
  | succ k ih =>
    intro n hk
    by_cases hq : (s.sched cfg σ n).quiescent cfg
    · obtain ⟨i1, i2⟩ := StopInv.sched hcfg h hne σ n
      exact ⟨n, Nat.le_refl _, i1.quiescent_returned i2 hq⟩
    · obtain ⟨m, hnm, hsys, hen⟩ := hfair n hq
      obtain ⟨i1, i2⟩ := StopInv.sched hcfg h hne σ m
      obtain ⟨s1, hs1⟩ := Option.isSome_iff_exists.mp hen
      have hlt := (i1.measure_step i2 _ hs1).2 hsys
      obtain ⟨d, rfl⟩ := Nat.exists_eq_add_of_le hnm
      have hmono := StopInv.sched_measure_mono hcfg h hne σ n d
      have hnext : (s.sched cfg σ (n + d + 1)).measure cfg ≤ k := by
        rw [StopSt.sched_succ, hs1]
        simp only [Option.getD_some]
        omega
      obtain ⟨m', hm', hret⟩ := ih (n + d + 1) hnext
      exact ⟨m', by omega, hret⟩

end Tickit
