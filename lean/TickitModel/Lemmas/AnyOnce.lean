/-
Any-order nested tick, part 7 (C01 through nesting): in every execution of a tick, whatever the
answer orders at whatever depth, every device is updated at most once, at the tick's time; and the
ticker of every level hands out and takes in its dispatches in an order that satisfies C01.
-/
import TickitModel.Lemmas.AnyDet

namespace Tickit

/-- between `st` and `st'` every component made at most one new observation, at time `t` -/
def OnceAt (t : SimTime) (st st' : SimSt) : Prop :=
  ∀ x, st'.obsOf x = st.obsOf x ∨ ∃ m, st'.obsOf x = st.obsOf x ++ [(t, m)]

/-- (for input changes that form a dict, as all input changes do) -/
def LevelOnce : LevelRel := fun _ t _ inCh st r => (akeys inCh).Nodup → OnceAt t st r.1

section

variable {S : Static} {orc : Oracle} {inner : LevelRel}

theorem AnsP.once (hin : ∀ c t ro i s r, inner c t ro i s r → LevelOnce c t ro i s r)
    {L : Level} {inCh : List (Port × V)} {st : SimSt} {d : Dispatch V}
    {res : SimSt × List (Port × V) × Option SimTime} (a : AnsP S orc inner L inCh st d res)
    (hnd : Det.InsNodup d) : OnceAt d.time st res.1 := by
  cases a with
  | skip => exact fun _ => Or.inl rfl
  | external _ => exact fun _ => Or.inl rfl
  | expose _ _ => exact fun _ => Or.inl rfl
  | sys _ _ _ h4 => exact hin _ _ _ _ _ _ h4 hnd
  | @dev c t ins resp _ _ _ _ _ =>
    intro x
    by_cases hx : x = c
    · subst hx
      right
      exact ⟨_, congrArg SLoc.ob (loc_devAfter_self st x t ins resp)⟩
    · left
      exact congrArg SLoc.ob (loc_devAfter_ne st c t ins resp hx)

/-- at the end of the loop of a level every component has made at most one new observation -/
theorem Inv2.once
    (hin : ∀ c t ro i s r, inner c t ro i s r → LevelOnce c t ro i s r)
    {L : Level} {inCh : List (Port × V)} {t : SimTime} {roots : List Comp} {st0 : SimSt}
    {ls : LoopSt} {tr : List (Ev V)} {recs : List AnsRec}
    (inv : Inv2 S orc inner L inCh t roots st0 ls tr recs) : OnceAt t st0 ls.st := by
  intro x
  by_cases hex : ∃ r ∈ recs, Foot S L r.d.comp x
  · obtain ⟨r, hr, hf⟩ := hex
    obtain ⟨hd, ha, hp, hq, _⟩ := inv.recs_ok r hr
    have ht : r.d.time = t := (inv.pre.disp_ext _ hd).2
    have h1 : ls.st.obsOf x = r.post.obsOf x := congrArg SLoc.ob (hq x hf)
    have h2 : r.pre.obsOf x = st0.obsOf x := congrArg SLoc.ob (hp x hf)
    rw [h1, ← h2, ← ht]
    exact ha.once hin (inv.ins.2 _ hd) x
  · left
    by_cases hx : x = L.name
    · subst hx
      exact inv.own.2.2.1
    · exact congrArg SLoc.ob (inv.untouched x hx (fun r hr h => hex ⟨r, hr, h⟩))

/-- **C01 through nesting, at most once**: every any-order execution of a tick updates every
device at most once, at the tick's time. -/
theorem tickLevelAny_once (hS : S.Valid) {lvl : Comp} {t : SimTime} {roots : List Comp}
    {inCh : List (Port × V)} (hn : (akeys inCh).Nodup) {st : SimSt} {r : SimSt × List (Port × V)}
    (h : TickLevelAny S orc lvl t roots inCh st r) : OnceAt t st r.1 := by
  refine TickLevelAny.strong_induct (Q := LevelOnce) ?_ h hn
  intro lvl t roots inCh st r hl hn
  obtain ⟨L, tk, ds, hLv, hcall, hloop⟩ := hl
  obtain ⟨hL, hname⟩ := Static.level_some hLv
  subst hname
  have hp : ∀ c t ro i s r, (TickLevelAny S orc c t ro i s r ∧ LevelOnce c t ro i s r) →
      LevelPost1 S c s r := fun _ _ _ _ _ _ h => tickLevelAny_post1 hS h.1
  obtain ⟨ls1, tr1, recs1, inv1, _, _, rfl⟩ :=
    hloop.run_inv2 hS hp hL hn (t := t) (roots := roots) (st0 := st) (Inv2.init hcall)
  exact inv1.once (fun _ _ _ _ _ _ h => h.2)

end

end Tickit
