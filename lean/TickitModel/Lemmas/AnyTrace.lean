/-
Any-order nested tick, part 3: the tick equations of ONE level in a form that does not mention a
reaction FUNCTION.  `Lemmas/TickEqLemmas.lean` characterises the dispatches of a tick of the
closed system `TickSys`, whose components answer by a function `react`.  A system component's
answer is the result of an inner tick that is itself an any-order execution: not a function of the
dispatch (only a function up to the order of keys, which is what has to be proved).  Here the
invariant is stated for a ghost trace with ARBITRARY answers, and the uniqueness of the solution
of the tick equations is proved relative to "the answers of the same component to equivalent
dispatches are equal as mappings".
-/
import TickitModel.Lemmas.TickEqLemmas
import TickitModel.Lemmas.FlatDetLemmas

namespace Tickit

variable {Val : Type}

/-- the part of the tick-equation invariant that does not depend on how answers are produced
(`EqPre` without its field `ans`) -/
structure TrPre (w : Wiring) (t : SimTime) (roots : List Comp)
    (inputs : List (Comp × List (Port × Val))) (trace : List (Ev Val)) : Prop where
  /-- the accumulator reflects the answers so far -/
  inputs : InputsInv w inputs trace
  /-- every dispatch was decided from the answers preceding it -/
  dec : ∀ pre d post, trace = pre ++ Ev.dispatch d :: post → DecidedFrom w t roots pre d
  /-- a dispatched component is known to the inverse tree -/
  ups : ∀ d, Ev.dispatch d ∈ trace → (w.ups d.comp).isSome = true

theorem TrPre.start (w : Wiring) (t : SimTime) (roots : List Comp) :
    TrPre (Val := Val) w t roots [] [] :=
  { inputs := InputsInv.nil w
    dec := by simp
    ups := by simp }

/-- a pending dispatch has not been answered yet -/
theorem PreInv.pending_fresh {w : Wiring} {t : SimTime} {roots : List Comp}
    {tu : List (Comp × Bool)} {pending : List (Dispatch Val)} {trace : List (Ev Val)}
    (hp : PreInv w t roots tu pending trace) {d : Dispatch Val} (hd : d ∈ pending) :
    ∀ ch', Ev.answer d.comp ch' ∉ trace := by
  have h0 : alookup tu d.comp = some true := (hp.pend_flag _).1 ⟨d, hd, rfl⟩
  intro ch' hm
  have := (hp.resolved d.comp (hp.keys_ext _ (by rw [h0]; simp))).2 ⟨ch', hm⟩
  rw [h0] at this; cases this

theorem TrPre.answer {w : Wiring} (hw : RouterOK w) {t : SimTime} {roots : List Comp}
    {inputs : List (Comp × List (Port × Val))} {tu : List (Comp × Bool)}
    {pending : List (Dispatch Val)} {trace : List (Ev Val)}
    (h : TrPre w t roots inputs trace) (hp : PreInv w t roots tu pending trace)
    {d : Dispatch Val} (hd : d ∈ pending) {chs : List (Port × Val)} (hch : (akeys chs).Nodup) :
    TrPre w t roots (addInputs inputs (w.route d.comp chs)) (trace ++ [Ev.answer d.comp chs]) :=
  { inputs := h.inputs.answer hw hch (hp.pending_fresh hd)
    dec := by
      intro pre d' post htr
      rcases append_eq_append_cons htr with ⟨post', h1, _⟩ | ⟨pre', _, h2⟩
      · exact h.dec pre d' post' h1
      · cases pre' <;> simp at h2
    ups := by
      intro d' hd'
      simp only [List.mem_append, List.mem_singleton, reduceCtorEq, or_false] at hd'
      exact h.ups d' hd' }

theorem TrPre.schedule {w : Wiring} {t : SimTime} {roots : List Comp}
    {tk : Ticker Val} {trace : List (Ev Val)} {l : List (Comp × Bool)} {ds : List (Dispatch Val)}
    (h : TrPre w t roots tk.inputs trace) (hroots : tk.roots = roots) (ht : tk.time = t)
    (hs : Ticker.scheduleLoop w tk l = .ok ds) :
    TrPre w t roots tk.inputs (trace ++ ds.map Ev.dispatch) := by
  obtain ⟨hspec, hups⟩ := scheduleLoop_spec hs
  have hmem : ∀ d ∈ ds, ∃ e ∈ l, e.2 = false ∧ d = tk.decide e.1 := by
    intro d hd
    rw [hspec] at hd
    obtain ⟨e, he, rfl⟩ := List.mem_map.1 hd
    obtain ⟨he, hsel⟩ := List.mem_filter.1 he
    simp only [Ticker.selects, Bool.and_eq_true, Bool.not_eq_true'] at hsel
    exact ⟨e, he, hsel.1, rfl⟩
  exact
    { inputs := h.inputs.congr (by simp)
      dec := by
        intro pre d post htr
        rcases append_eq_append_cons htr with ⟨post', h1, _⟩ | ⟨pre', h1, h2⟩
        · exact h.dec _ _ _ h1
        · have hd : d ∈ ds := by
            have : Ev.dispatch d ∈ ds.map Ev.dispatch := by rw [h2]; simp
            simpa using this
          obtain ⟨e, _, _, hde⟩ := hmem d hd
          refine ⟨tk, hroots, ht, h.inputs.congr ?_, ?_⟩
          · intro a chs
            rw [h1, List.mem_append]
            constructor
            · exact Or.inl
            · rintro (hm | hm)
              · exact hm
              · have : Ev.answer a chs ∈ ds.map Ev.dispatch := by rw [h2]; simp [hm]
                simp at this
          · have : d.comp = e.1 := by rw [hde]; simp
            rw [this]; exact hde
      ups := by
        intro d hd
        rcases List.mem_append.1 hd with hd | hd
        · exact h.ups d hd
        · simp only [List.mem_map, Ev.dispatch.injEq, exists_eq_right] at hd
          obtain ⟨e, he, hf, hde⟩ := hmem d hd
          have : d.comp = e.1 := by rw [hde]; simp
          rw [this]; exact hups e he hf }

/-- two answers of the same component in a trace with at most one answer per component coincide -/
theorem answer_unique {tr : List (Ev Val)} {a : Comp}
    (hcount : (tr.filter (Ev.isAnswerOf a)).length ≤ 1) {ch ch' : List (Port × Val)}
    (h : Ev.answer a ch ∈ tr) (h' : Ev.answer a ch' ∈ tr) : ch = ch' := by
  have := eq_of_filter_length_le_one hcount h h' (by simp [Ev.isAnswerOf]) (by simp [Ev.isAnswerOf])
  cases this; rfl

theorem PreInv.answer_count {w : Wiring} {t : SimTime} {roots : List Comp}
    {tu : List (Comp × Bool)} {pending : List (Dispatch Val)} {trace : List (Ev Val)}
    (hp : PreInv w t roots tu pending trace) (a : Comp) :
    (trace.filter (Ev.isAnswerOf a)).length ≤ 1 :=
  Nat.le_trans (hp.count a).2 (hp.count a).1

/-- whoever answered had been dispatched -/
theorem PreInv.answer_dispatched {w : Wiring} {t : SimTime} {roots : List Comp}
    {tu : List (Comp × Bool)} {pending : List (Dispatch Val)} {trace : List (Ev Val)}
    (hp : PreInv w t roots tu pending trace) {a : Comp} {ch : List (Port × Val)}
    (h : Ev.answer a ch ∈ trace) : ∃ d, dispatchOf trace a = some d := by
  cases hd : dispatchOf trace a with
  | some d => exact ⟨d, rfl⟩
  | none =>
    exfalso
    have h0 : trace.filter (Ev.isDispatchOf a) = [] :=
      filter_isDispatchOf_eq_nil (dispatchOf_eq_none_iff.1 hd)
    have h1 := (hp.count a).2
    rw [h0] at h1
    have h2 : 0 < (trace.filter (Ev.isAnswerOf a)).length :=
      List.length_pos_of_mem (List.mem_filter.2 ⟨h, by simp [Ev.isAnswerOf]⟩)
    simp only [List.length_nil, Nat.le_zero_eq] at h1
    omega

/-- **what a dispatch is**, in terms of the trace alone: an `Input` carrying exactly the ports
that the answers of the trace report as changed if the component is a root or some port changed,
a `Skip` otherwise.  (At the dispatch all sources taking part in the tick had answered, and nobody
answers twice, so "changed by an earlier answer" is "changed by an answer".) -/
theorem trace_dispatch_spec {w : Wiring} (hw : RouterOK w) {t : SimTime} {roots : List Comp}
    {tu : List (Comp × Bool)} {pending : List (Dispatch Val)}
    {inputs : List (Comp × List (Port × Val))} {tr : List (Ev Val)}
    (hp : PreInv w t roots tu pending tr) (he : TrPre w t roots inputs tr)
    {c : Comp} {d : Dispatch Val} (hd : dispatchOf tr c = some d) :
    (∃ ins, d = .input c t ins ∧ (c ∈ roots ∨ ∃ q v, Changed w tr c q v) ∧
        ∀ q v, alookup ins q = some v ↔ Changed w tr c q v) ∨
      (d = .skip c t ∧ c ∉ roots ∧ ∀ q v, ¬ Changed w tr c q v) := by
  obtain ⟨hm, rfl⟩ := dispatchOf_eq_some hd
  obtain ⟨pre, post, htr⟩ := List.append_of_mem hm
  obtain ⟨us, hus⟩ := Option.isSome_iff_exists.1 (he.ups d hm)
  have hcf : ∀ q v, Changed w pre d.comp q v ↔ Changed w tr d.comp q v := by
    intro q v
    constructor
    · rintro ⟨a, chs, p, h1, h2⟩
      exact ⟨a, chs, p, by rw [htr]; exact List.mem_append_left _ h1, h2⟩
    · rintro ⟨a, chs, p, h1, hconn, hv⟩
      obtain ⟨da, hda⟩ := hp.answer_dispatched h1
      obtain ⟨hdam, hdac⟩ := dispatchOf_eq_some hda
      have hext : a ∈ extent w roots := hdac ▸ (hp.disp_ext da hdam).1
      have hau : a ∈ us := (hw.ups_edge _ us hus _).2 ⟨p, q, hconn⟩
      obtain ⟨ch', hch'⟩ := hp.order pre d post htr us hus a hau hext
      have hch'' : Ev.answer a ch' ∈ tr := by rw [htr]; exact List.mem_append_left _ hch'
      have := answer_unique (hp.answer_count a) h1 hch''
      subst this
      exact ⟨a, chs, p, hch', hconn, hv⟩
  rcases (he.dec pre d post htr).spec with ⟨ins, h1, h2, h3⟩ | ⟨h1, h2, h3⟩
  · refine Or.inl ⟨ins, h1, ?_, fun q v => (h3 q v).trans (hcf q v)⟩
    rcases h2 with h2 | ⟨q, v, h2⟩
    · exact Or.inl h2
    · exact Or.inr ⟨q, v, (hcf q v).1 h2⟩
  · exact Or.inr ⟨h1, h2, fun q v hf => h3 q v ((hcf q v).2 hf)⟩

/-- the ghost trace of a COMPLETE tick of one level: what the uniqueness argument needs -/
structure TraceFin (w : Wiring) (t : SimTime) (roots : List Comp) (tr : List (Ev Val)) : Prop where
  count : ∀ c, (tr.filter (Ev.isDispatchOf c)).length ≤ 1 ∧
    (tr.filter (Ev.isAnswerOf c)).length ≤ (tr.filter (Ev.isDispatchOf c)).length
  none_iff : ∀ c, dispatchOf tr c = none ↔ c ∉ extent w roots
  ups : ∀ d, Ev.dispatch d ∈ tr → ∃ us, w.ups d.comp = some us
  spec : ∀ c d, dispatchOf tr c = some d →
    (∃ ins, d = .input c t ins ∧ (c ∈ roots ∨ ∃ q v, Changed w tr c q v) ∧
        ∀ q v, alookup ins q = some v ↔ Changed w tr c q v) ∨
      (d = .skip c t ∧ c ∉ roots ∧ ∀ q v, ¬ Changed w tr c q v)
  answered : ∀ c, c ∈ extent w roots → ∃ ch, Ev.answer c ch ∈ tr
  ans_disp : ∀ a ch, Ev.answer a ch ∈ tr → ∃ d, dispatchOf tr a = some d

theorem TraceFin.of_inv {w : Wiring} (hw : RouterOK w) {t : SimTime} {roots : List Comp}
    {pending : List (Dispatch Val)} {inputs : List (Comp × List (Port × Val))} {tr : List (Ev Val)}
    (hp : PreInv w t roots [] pending tr) (he : TrPre w t roots inputs tr) :
    TraceFin w t roots tr :=
  { count := hp.count
    none_iff := by
      intro c
      constructor
      · intro hn hc
        obtain ⟨ch, hch⟩ := (hp.resolved c hc).1 rfl
        obtain ⟨d, hd⟩ := hp.answer_dispatched hch
        rw [hn] at hd; cases hd
      · intro hc
        rw [dispatchOf_eq_none_iff]
        intro d hd hdc
        exact hc (hdc ▸ (hp.disp_ext d hd).1)
    ups := fun d hd => Option.isSome_iff_exists.1 (he.ups d hd)
    spec := fun _ _ hd => trace_dispatch_spec hw hp he hd
    answered := fun c hc => (hp.resolved c hc).1 rfl
    ans_disp := fun _ _ h => hp.answer_dispatched h }

theorem TraceFin.answer_unique {w : Wiring} {t : SimTime} {roots : List Comp} {tr : List (Ev Val)}
    (h : TraceFin w t roots tr) {a : Comp} {ch ch' : List (Port × Val)}
    (h1 : Ev.answer a ch ∈ tr) (h2 : Ev.answer a ch' ∈ tr) : ch = ch' :=
  Tickit.answer_unique (Nat.le_trans (h.count a).2 (h.count a).1) h1 h2

/-- **the tick equations have one solution**, relative to the answers: if in two complete ticks
of the same level (roots equal as sets) the answers of a component to equivalent dispatches are
equal as mappings, then every component received equivalent dispatches in the two ticks. -/
theorem sameDispatch_traces {w : Wiring} (hw : RouterOK w) (hacyc : w.Acyclic) {t : SimTime}
    {roots roots' : List Comp} (hroots : ∀ c, c ∈ roots ↔ c ∈ roots') {tr1 tr2 : List (Ev Val)}
    (h1 : TraceFin w t roots tr1) (h2 : TraceFin w t roots' tr2)
    (hans : ∀ a d1 d2 ch1 ch2, dispatchOf tr1 a = some d1 → dispatchOf tr2 a = some d2 →
      Dispatch.Equiv d1 d2 → Ev.answer a ch1 ∈ tr1 → Ev.answer a ch2 ∈ tr2 →
      ∀ p, alookup ch1 p = alookup ch2 p)
    (c : Comp) : SameDispatch (dispatchOf tr1 c) (dispatchOf tr2 c) := by
  obtain ⟨rank, hrank⟩ := hacyc
  suffices key : ∀ n c, rank c < n → SameDispatch (dispatchOf tr1 c) (dispatchOf tr2 c) from
    key _ c (Nat.lt_succ_self _)
  intro n
  induction n with
  | zero => intro c hc; omega
  | succ n ih =>
    intro c hc
    cases h1c : dispatchOf tr1 c with
    | none =>
      have hce := (h1.none_iff c).1 h1c
      rw [(h2.none_iff c).2 (fun h => hce ((Det.extent_congr w hroots c).2 h))]
      trivial
    | some d1 =>
      have hce : c ∈ extent w roots := by
        apply Classical.byContradiction
        intro hn
        rw [(h1.none_iff c).2 hn] at h1c; cases h1c
      cases h2c : dispatchOf tr2 c with
      | none =>
        exact absurd ((Det.extent_congr w hroots c).1 hce) ((h2.none_iff c).1 h2c)
      | some d2 =>
        obtain ⟨hd1m, hd1c⟩ := dispatchOf_eq_some h1c
        obtain ⟨us, hus⟩ := h1.ups d1 hd1m
        rw [hd1c] at hus
        -- the sources of `c` answered equally
        have hch : ∀ q v, Changed w tr1 c q v ↔ Changed w tr2 c q v := by
          intro q v
          have hlt : ∀ a p, w.Conn a p c q → rank a < n := by
            intro a p hconn
            have := hrank c us a hus ((hw.ups_edge c us hus a).2 ⟨p, q, hconn⟩)
            omega
          constructor
          · rintro ⟨a, chs, p, hm, hconn, hv⟩
            have hsd := ih a (hlt a p hconn)
            obtain ⟨da1, hda1⟩ := h1.ans_disp a chs hm
            rw [hda1] at hsd
            cases hda2 : dispatchOf tr2 a with
            | none => rw [hda2] at hsd; exact hsd.elim
            | some da2 =>
              rw [hda2] at hsd
              have hae : a ∈ extent w roots' := by
                apply Classical.byContradiction
                intro hn
                rw [(h2.none_iff a).2 hn] at hda2; cases hda2
              obtain ⟨ch2, hch2⟩ := h2.answered a hae
              have := hans a da1 da2 chs ch2 hda1 hda2 hsd hm hch2 p
              exact ⟨a, ch2, p, hch2, hconn, this ▸ hv⟩
          · rintro ⟨a, chs, p, hm, hconn, hv⟩
            have hsd := ih a (hlt a p hconn)
            obtain ⟨da2, hda2⟩ := h2.ans_disp a chs hm
            rw [hda2] at hsd
            cases hda1 : dispatchOf tr1 a with
            | none => rw [hda1] at hsd; exact hsd.elim
            | some da1 =>
              rw [hda1] at hsd
              have hae : a ∈ extent w roots := by
                apply Classical.byContradiction
                intro hn
                rw [(h1.none_iff a).2 hn] at hda1; cases hda1
              obtain ⟨ch1, hch1⟩ := h1.answered a hae
              have := hans a da1 da2 ch1 chs hda1 hda2 hsd hch1 hm p
              exact ⟨a, ch1, p, hch1, hconn, this.symm ▸ hv⟩
        rcases h1.spec c d1 h1c with ⟨i1, rfl, hr1, hi1⟩ | ⟨rfl, hnr1, hno1⟩ <;>
          rcases h2.spec c d2 h2c with ⟨i2, rfl, hr2, hi2⟩ | ⟨rfl, hnr2, hno2⟩
        · exact ⟨rfl, rfl, fun q => option_ext_some (fun v =>
            (hi1 q v).trans ((hch q v).trans (hi2 q v).symm))⟩
        · rcases hr1 with hr1 | ⟨q, v, hr1⟩
          · exact absurd ((hroots c).1 hr1) hnr2
          · exact absurd ((hch q v).1 hr1) (hno2 q v)
        · rcases hr2 with hr2 | ⟨q, v, hr2⟩
          · exact absurd ((hroots c).2 hr2) hnr1
          · exact absurd ((hch q v).2 hr2) (hno1 q v)
        · exact ⟨rfl, rfl⟩

end Tickit
