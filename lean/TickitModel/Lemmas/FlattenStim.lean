/-
Helper lemmas for C09, part 22 (external stimuli): the correspondence `CorrP` between a nested
state with pending interrupts and the flat state, what `raiseInterrupt` does, and the step of
one stimulus.
-/
import TickitModel.Lemmas.FlattenStimDefs

namespace Tickit

/-- component `c` lies on the way from an interrupted device up to the master -/
def Static.OnPath (S : Static) (I : List Comp) (c : Comp) : Prop := ∃ x ∈ I, S.Own c x

/-- the master records a wakeup for `c` at `w` (what `masterRun` does for an interrupt) -/
def SimSt.addMasterWake (st : SimSt) (c : Comp) (w : SimTime) : SimSt :=
  let sc := st.sched ""
  { st with scheds := upsert st.scheds "" { sc with wake := addWakeup sc.wake c w } }

/-- **the correspondence with pending interrupts** `I`, all stamped `τ`: the nested state has the
interrupted devices queued level by level and the stamp as wakeup of their top-level components;
the flat state has the stamp as wakeup of the devices themselves. -/
structure CorrP (S : Static) (orc : Oracle) (I : List Comp) (τ : SimTime) (st st' : SimSt) : Prop where
  devs : ∀ d, S.isDevice d →
    (agetD st.devs d {}).lastOutputs = (agetD st'.devs d {}).lastOutputs ∧
    MapEq (agetD st.devs d {}).deviceInputs (agetD st'.devs d {}).deviceInputs
  count : ∀ d, S.isDevice d → agetD st.count d 0 = agetD st'.count d 0
  obs : ∀ d, ObsEq (st.obsOf d) (st'.obsOf d)
  int_dev : ∀ x ∈ I, S.isDevice x
  wake_dev : ∀ d P, S.isDevice d → d ∉ I → alookup S.parent d = some P →
    alookup (st'.sched "").wake d = alookup (st.sched P).wake d
  wake_int : ∀ x ∈ I, alookup (st'.sched "").wake x = some τ
  first_done : ∀ s, S.isSys s = true → (st.sched s).firstDone = true
  ints : ∀ s c, S.isSys s = true →
    (c ∈ (st.sched s).interrupts ↔ alookup S.parent c = some s ∧ S.OnPath I c)
  wake_sys : ∀ s P, S.isSys s = true → alookup S.parent s = some P → ¬ (P = "" ∧ S.OnPath I s) →
    alookup (st.sched P).wake s = (firstWakeups (st.sched s).wake).2
  wake_top : ∀ c, alookup S.parent c = some "" → S.OnPath I c →
    alookup (st.sched "").wake c = some τ
  ge : I ≠ [] → ∀ L c w, alookup (st.sched L).wake c = some w → τ ≤ w
  quiet : ∀ d P, S.isDevice d → orc.Quiet d → alookup S.parent d = some P → ¬ (P = "" ∧ d ∈ I) →
    alookup (st.sched P).wake d = none
  wake_keys : ∀ L c, c ∈ akeys (st.sched L).wake → alookup S.parent c = some L
  wake_unique : ∀ L, UniqueKeys (st.sched L).wake
  flat_sched : SchedOK (S.flatten 0) st'

theorem Static.onPath_nil (S : Static) (c : Comp) : ¬ S.OnPath [] c := by
  rintro ⟨x, hx, _⟩; cases hx

/-- without pending interrupts `CorrP` is `Corr` -/
theorem CorrP.toCorr {S : Static} {orc : Oracle} {τ : SimTime} {st st' : SimSt}
    (h : CorrP S orc [] τ st st') : Corr S st st' :=
  { devs := h.devs
    count := h.count
    obs := h.obs
    started := by
      intro s hs
      refine ⟨h.first_done s hs, ?_⟩
      cases hi : (st.sched s).interrupts with
      | nil => rfl
      | cons c _ =>
        have := (h.ints s c hs).1 (by rw [hi]; simp)
        exact absurd this.2 (S.onPath_nil c)
    wake_dev := fun d P hd hP => h.wake_dev d P hd (by simp) hP
    wake_sys := fun s P hs hP => h.wake_sys s P hs hP (fun h' => S.onPath_nil s h'.2)
    wake_keys := h.wake_keys
    wake_unique := h.wake_unique
    flat_sched := h.flat_sched }

theorem Corr.toCorrP {S : Static} {orc : Oracle} {st st' : SimSt} (h : Corr S st st') (τ : SimTime)
    (hq : ∀ d P, S.isDevice d → orc.Quiet d → alookup S.parent d = some P →
      alookup (st.sched P).wake d = none) : CorrP S orc [] τ st st' :=
  { devs := h.devs
    count := h.count
    obs := h.obs
    int_dev := by simp
    wake_dev := fun d P hd _ hP => h.wake_dev d P hd hP
    wake_int := by simp
    first_done := fun s hs => (h.started s hs).1
    ints := by
      intro s c hs
      rw [(h.started s hs).2]
      constructor
      · intro h'; cases h'
      · intro h'; exact absurd h'.2 (S.onPath_nil c)
    wake_sys := fun s P hs hP _ => h.wake_sys s P hs hP
    wake_top := fun c _ h' => absurd h' (S.onPath_nil c)
    ge := fun h' => absurd rfl h'
    quiet := fun d P hd hqd hP _ => hq d P hd hqd hP
    wake_keys := h.wake_keys
    wake_unique := h.wake_unique
    flat_sched := h.flat_sched }

/-- a device owns only itself -/
theorem Static.Valid.own_device {S : Static} (hS : S.Valid) {d x : Comp} (hd : S.isDevice d)
    (h : S.Own d x) : x = d := by
  rcases h with h | ⟨hne, hb⟩
  · exact h
  · rcases hb.isSys hS.toWF with h' | h'
    · exact absurd h' hne
    · rw [hd.2] at h'; cases h'

/-- every wakeup entry is dominated by an entry of the master -/
theorem CorrP.dominated {S : Static} (hS : S.Valid) {orc : Oracle} {I : List Comp} {τ : SimTime}
    {st st' : SimSt} (hc : CorrP S orc I τ st st') {c : Comp} (hb : S.Below "" c) :
    ∀ P w, alookup S.parent c = some P → alookup (st.sched P).wake c = some w →
      ∃ a w', alookup (st.sched "").wake a = some w' ∧ w' ≤ w := by
  induction hb with
  | direct h =>
    intro P w hP hw
    rw [h] at hP; cases hP
    exact ⟨_, w, hw, Int.le_refl _⟩
  | @step c p h hp _ ih =>
    intro P w hP hw
    rw [h] at hP; cases hP
    obtain ⟨_, _, _, hsys⟩ := hS.parent_level c p h
    have hsysP : S.isSys p = true := by
      rcases hsys with h' | h'
      · exact absurd h' hp
      · exact h'
    obtain ⟨PP, hPP⟩ := Option.isSome_iff_exists.1 (hS.sys_parent p hsysP)
    by_cases hex : PP = "" ∧ S.OnPath I p
    · obtain ⟨rfl, hon⟩ := hex
      have hI : I ≠ [] := by
        obtain ⟨x, hx, _⟩ := hon
        exact List.ne_nil_of_mem hx
      exact ⟨p, τ, hc.wake_top p hPP hon, hc.ge hI _ _ _ hw⟩
    · have hmin := hc.wake_sys p PP hsysP hPP hex
      cases hfw : (firstWakeups (st.sched p).wake).2 with
      | none =>
        rw [firstWakeups_none] at hfw
        rw [hfw] at hw
        simp at hw
      | some m =>
        obtain ⟨_, hle⟩ := system_callback_is_min _ (hc.wake_unique p) m hfw
        rw [hfw] at hmin
        obtain ⟨a, w', ha, hw'⟩ := ih PP m hPP hmin
        exact ⟨a, w', ha, Int.le_trans hw' (hle c w hw)⟩

/-! ### `raiseInterrupt` -/

/-- component `c` is queued as interrupting in the scheduler of level `p` -/
def SimSt.queueInt (st : SimSt) (p c : Comp) : SimSt :=
  let sc := st.sched p
  { st with scheds := upsert st.scheds p { sc with interrupts := sinsert sc.interrupts c } }

theorem raiseInterrupt_succ (S : Static) (f : Nat) (c : Comp) (st : SimSt) :
    raiseInterrupt S (f + 1) c st =
      match alookup S.parent c with
      | none => (st, c)
      | some p => if p == "" then (st, c) else raiseInterrupt S f p (st.queueInt p c) := by
  rw [raiseInterrupt]
  rfl

/-- with enough fuel, `raiseInterrupt` queues every component on the way up in the scheduler of
its level and returns the top-level one; nothing else changes -/
theorem raise_spec {S : Static} (hS : S.Valid) :
    ∀ (f : Nat) (c : Comp) (st : SimSt) (k : Nat), S.Up "" c k → k ≤ f →
      alookup S.parent (raiseInterrupt S f c st).2 = some "" ∧
      S.Own (raiseInterrupt S f c st).2 c ∧
      (raiseInterrupt S f c st).1.devs = st.devs ∧ (raiseInterrupt S f c st).1.count = st.count ∧
      (raiseInterrupt S f c st).1.obs = st.obs ∧
      (∀ s, ((raiseInterrupt S f c st).1.sched s).wake = (st.sched s).wake ∧
        ((raiseInterrupt S f c st).1.sched s).firstDone = (st.sched s).firstDone) ∧
      (∀ s c', c' ∈ ((raiseInterrupt S f c st).1.sched s).interrupts ↔
        c' ∈ (st.sched s).interrupts ∨ (alookup S.parent c' = some s ∧ s ≠ "" ∧ S.Own c' c)) := by
  intro f
  induction f with
  | zero => intro c st k hu hk; have := hu.pos; omega
  | succ f ih =>
    intro c st k hu hk
    cases hu with
    | direct h =>
      have e : raiseInterrupt S (f + 1) c st = (st, c) := by
        rw [raiseInterrupt_succ, h]; rfl
      rw [e]
      refine ⟨h, Static.Own.refl S c, rfl, rfl, rfl, fun _ => ⟨rfl, rfl⟩, fun s c' => ?_⟩
      constructor
      · exact Or.inl
      · rintro (h' | ⟨hp', hs', ho⟩)
        · exact h'
        · exfalso
          rcases ho with rfl | ⟨hne, hb⟩
          · rw [h] at hp'; cases hp'; exact hs' rfl
          · cases hb with
            | direct h'' => rw [h] at h''; cases h''; exact hne rfl
            | step h'' hpp _ => rw [h] at h''; cases h''; exact hpp rfl
    | @step _ p k' h hp hu' =>
      have hpb : (p == "") = false := by simpa using hp
      have e : raiseInterrupt S (f + 1) c st = raiseInterrupt S f p (st.queueInt p c) := by
        rw [raiseInterrupt_succ, h]
        simp only [hpb, Bool.false_eq_true, if_false]
      rw [e]
      obtain ⟨r1, r2, r3, r4, r5, r6, r7⟩ := ih p (st.queueInt p c) k' hu' (by omega)
      have hq : ∀ s, (st.queueInt p c).sched s =
          if p = s then { st.sched p with interrupts := sinsert (st.sched p).interrupts c } else st.sched s :=
        fun s => SimSt.sched_upsert st p _ s
      refine ⟨r1, ?_, r3, r4, r5, fun s => ?_, fun s c' => ?_⟩
      · rcases r2 with h' | ⟨hne, hb⟩
        · rw [← h']; exact Or.inr ⟨hp, .direct h⟩
        · exact Or.inr ⟨hne, .step h hp hb⟩
      · obtain ⟨h1, h2⟩ := r6 s
        rw [h1, h2, hq s]
        split
        · rename_i hps; subst hps; exact ⟨rfl, rfl⟩
        · exact ⟨rfl, rfl⟩
      · rw [r7 s c', hq s]
        have hown : S.Own c' c ↔ c' = c ∨ (c' ≠ "" ∧ S.Own c' p) := by
          constructor
          · rintro (h' | ⟨hne, hb⟩)
            · exact Or.inl h'.symm
            · right
              refine ⟨hne, ?_⟩
              cases hb with
              | direct h'' => rw [h] at h''; cases h''; exact Or.inl rfl
              | step h'' _ hb' => rw [h] at h''; cases h''; exact Or.inr ⟨hne, hb'⟩
          · rintro (h' | ⟨hne, ho⟩)
            · exact Or.inl h'.symm
            · rcases ho with h'' | ⟨_, hb⟩
              · rw [← h'']; exact Or.inr ⟨hp, .direct h⟩
              · exact Or.inr ⟨hne, .step h hp hb⟩
        by_cases hps : p = s
        · subst hps
          simp only [if_true, mem_sinsert]
          constructor
          · rintro ((h' | h') | ⟨h1, h2, h3⟩)
            · exact Or.inl h'
            · exact Or.inr ⟨h' ▸ h, hp, hown.2 (Or.inl h')⟩
            · exact Or.inr ⟨h1, h2, hown.2 (Or.inr ⟨hS.child_ne_master h1, h3⟩)⟩
          · rintro (h' | ⟨h1, h2, h3⟩)
            · exact Or.inl (Or.inl h')
            · rcases hown.1 h3 with h' | ⟨_, h'⟩
              · exact Or.inl (Or.inr h')
              · exact Or.inr ⟨h1, h2, h'⟩
        · simp only [hps, if_false]
          constructor
          · rintro (h' | ⟨h1, h2, h3⟩)
            · exact Or.inl h'
            · exact Or.inr ⟨h1, h2, hown.2 (Or.inr ⟨hS.child_ne_master h1, h3⟩)⟩
          · rintro (h' | ⟨h1, h2, h3⟩)
            · exact Or.inl h'
            · rcases hown.1 h3 with h' | ⟨_, h'⟩
              · rw [h', h] at h1; cases h1; exact absurd rfl hps
              · exact Or.inr ⟨h1, h2, h'⟩

/-! ### one stimulus -/

theorem SimSt.addMasterWake_sched_ne (st : SimSt) (c : Comp) (w : SimTime) {s : Comp} (h : s ≠ "") :
    (st.addMasterWake c w).sched s = st.sched s := by
  unfold SimSt.addMasterWake
  simp only []
  rw [SimSt.sched_upsert, if_neg (Ne.symm h)]

theorem SimSt.addMasterWake_master (st : SimSt) (c : Comp) (w : SimTime) :
    (st.addMasterWake c w).sched "" =
      { st.sched "" with wake := addWakeup (st.sched "").wake c w } := by
  unfold SimSt.addMasterWake
  simp only []
  rw [SimSt.sched_upsert, if_pos rfl]

theorem SimSt.addMasterWake_lookup (st : SimSt) (c : Comp) (w : SimTime) (x : Comp) :
    alookup ((st.addMasterWake c w).sched "").wake x =
      if x = c then some w else alookup (st.sched "").wake x := by
  rw [SimSt.addMasterWake_master]
  exact addWakeup_lookup _ _ _ _

/-- on the flat configuration an interrupt of a device is raised at the master directly -/
theorem raiseInterrupt_flat (S : Static) (n : Nat) {x : Comp} (hx : S.isDevice x) (st : SimSt) :
    raiseInterrupt (S.flatten n) 1 x st = (st, x) := by
  rw [raiseInterrupt_succ, S.flatten_parent, if_pos (Static.mem_devices_iff.2 hx)]
  rfl

/-- **one stimulus**: raising an interrupt of device `x` on both sides, stamped `stamp` (equal to
the stamp of the interrupts already pending, not later than any pending wakeup), preserves the
correspondence -/
theorem corrP_stim {S : Static} (hS : S.Valid) {orc : Oracle} {I : List Comp} {τ : SimTime}
    {st st' : SimSt} (hc : CorrP S orc I τ st st') {x : Comp} (hx : S.isDevice x) {fuel k : Nat}
    (hup : S.Up "" x k) (hk : k ≤ fuel) {stamp : SimTime} (hI : I ≠ [] → stamp = τ)
    (hmin : ∀ c w, alookup (st.sched "").wake c = some w → stamp ≤ w) (n : Nat) :
    CorrP S orc (x :: I) stamp
      ((raiseInterrupt S fuel x st).1.addMasterWake (raiseInterrupt S fuel x st).2 stamp)
      ((raiseInterrupt (S.flatten n) 1 x st').1.addMasterWake
        (raiseInterrupt (S.flatten n) 1 x st').2 stamp) := by
  rw [raiseInterrupt_flat S n hx]
  obtain ⟨htp, hto, hdv, hcn, hob, hwk, hin⟩ := raise_spec hS fuel x st k hup hk
  generalize raiseInterrupt S fuel x st = r at *
  obtain ⟨r1, top⟩ := r
  simp only [] at htp hto hdv hcn hob hwk hin ⊢
  have htopne : top ≠ "" := hS.child_ne_master htp
  -- wakeup entries on the nested side
  have hentry : ∀ L c, alookup ((r1.addMasterWake top stamp).sched L).wake c =
      if L = "" ∧ c = top then some stamp else alookup (st.sched L).wake c := by
    intro L c
    by_cases hL : L = ""
    · subst hL
      rw [SimSt.addMasterWake_lookup, (hwk "").1]
      simp
    · rw [SimSt.addMasterWake_sched_ne _ _ _ hL, (hwk L).1]
      simp [hL]
  -- a top-level component on a path to `x` is `top`
  have htopu : ∀ c, alookup S.parent c = some "" → S.Own c x → c = top :=
    fun c hc ho => Static.Own.unique hS.toWF hc htp ho hto
  have hpath : ∀ c, S.OnPath (x :: I) c ↔ S.Own c x ∨ S.OnPath I c := by
    intro c
    constructor
    · rintro ⟨y, hy, ho⟩
      rcases List.mem_cons.1 hy with rfl | hy
      · exact Or.inl ho
      · exact Or.inr ⟨y, hy, ho⟩
    · rintro (ho | ⟨y, hy, ho⟩)
      · exact ⟨x, by simp, ho⟩
      · exact ⟨y, List.mem_cons_of_mem _ hy, ho⟩
  have hτ : ∀ y ∈ I, stamp = τ := fun y hy => hI (List.ne_nil_of_mem hy)
  exact
    { devs := by
        intro d hd
        show (agetD r1.devs d {}).lastOutputs = (agetD st'.devs d {}).lastOutputs ∧
          MapEq (agetD r1.devs d {}).deviceInputs (agetD st'.devs d {}).deviceInputs
        rw [hdv]; exact hc.devs d hd
      count := by
        intro d hd
        show agetD r1.count d 0 = agetD st'.count d 0
        rw [hcn]; exact hc.count d hd
      obs := by
        intro d
        have h1 : (r1.addMasterWake top stamp).obsOf d = st.obsOf d := by
          unfold SimSt.obsOf; show (List.filter _ r1.obs).map _ = _; rw [hob]
        rw [h1]
        exact hc.obs d
      int_dev := by
        intro y hy
        rcases List.mem_cons.1 hy with rfl | hy
        · exact hx
        · exact hc.int_dev y hy
      wake_dev := by
        intro d P hd hdn hP
        simp only [List.mem_cons, not_or] at hdn
        rw [SimSt.addMasterWake_lookup, if_neg hdn.1, hentry P d]
        have : ¬ (P = "" ∧ d = top) := by
          rintro ⟨_, hdt⟩
          have := hS.own_device hd (hdt ▸ hto)
          exact hdn.1 this.symm
        rw [if_neg this]
        exact hc.wake_dev d P hd hdn.2 hP
      wake_int := by
        intro y hy
        rw [SimSt.addMasterWake_lookup]
        by_cases hyx : y = x
        · simp [hyx]
        · rw [if_neg hyx]
          rcases List.mem_cons.1 hy with h | h
          · exact absurd h hyx
          · rw [hc.wake_int y h, hτ y h]
      first_done := by
        intro s hs
        have hsne : s ≠ "" := by
          intro h0
          have := hS.sys_parent s hs
          rw [h0, hS.master_fresh] at this
          cases this
        rw [SimSt.addMasterWake_sched_ne _ _ _ hsne, (hwk s).2]
        exact hc.first_done s hs
      ints := by
        intro s c hs
        have hsne : s ≠ "" := by
          intro h0
          have := hS.sys_parent s hs
          rw [h0, hS.master_fresh] at this
          cases this
        rw [SimSt.addMasterWake_sched_ne _ _ _ hsne, hin s c, hc.ints s c hs, hpath c]
        constructor
        · rintro (⟨h1, h2⟩ | ⟨h1, _, h3⟩)
          · exact ⟨h1, Or.inr h2⟩
          · exact ⟨h1, Or.inl h3⟩
        · rintro ⟨h1, h2 | h2⟩
          · exact Or.inr ⟨h1, hsne, h2⟩
          · exact Or.inl ⟨h1, h2⟩
      wake_sys := by
        intro s P hs hP hex
        have hsne : s ≠ "" := hS.child_ne_master hP
        rw [hentry P s, SimSt.addMasterWake_sched_ne _ _ _ hsne, (hwk s).1]
        have hnt : ¬ (P = "" ∧ s = top) := by
          rintro ⟨rfl, rfl⟩
          exact hex ⟨rfl, (hpath s).2 (Or.inl hto)⟩
        rw [if_neg hnt]
        exact hc.wake_sys s P hs hP (fun h' => hex ⟨h'.1, (hpath s).2 (Or.inr h'.2)⟩)
      wake_top := by
        intro c hcp hon
        rw [hentry "" c]
        by_cases hct : c = top
        · simp [hct]
        · rw [if_neg (fun h' => hct h'.2)]
          rcases (hpath c).1 hon with ho | ho
          · exact absurd (htopu c hcp ho) hct
          · obtain ⟨y, hy, hoy⟩ := ho
            rw [hc.wake_top c hcp ⟨y, hy, hoy⟩, hτ y hy]
      ge := by
        intro _ L c w hw
        rw [hentry L c] at hw
        split at hw
        · cases hw; exact Int.le_refl _
        · by_cases hL : L = ""
          · subst hL; exact hmin c w hw
          · by_cases hIe : I = []
            · have hpc := hc.wake_keys L c (mem_akeys_of_alookup_eq_some hw)
              have hb : S.Below "" c := Static.below_master hS.toWF (by rw [hpc]; rfl)
              obtain ⟨a, w', ha, hle⟩ := hc.dominated hS hb L w hpc hw
              exact Int.le_trans (hmin a w' ha) hle
            · rw [hI hIe]
              exact hc.ge hIe L c w hw
      quiet := by
        intro d P hd hq hP hex
        rw [hentry P d]
        have hnt : ¬ (P = "" ∧ d = top) := by
          rintro ⟨hP0, hdt⟩
          have := hS.own_device hd (hdt ▸ hto)
          exact hex ⟨hP0, by rw [this]; simp⟩
        rw [if_neg hnt]
        exact hc.quiet d P hd hq hP (fun h' => hex ⟨h'.1, List.mem_cons_of_mem _ h'.2⟩)
      wake_keys := by
        intro L c hk'
        have hl := alookup_ne_none_iff.2 hk'
        rw [hentry L c] at hl
        split at hl
        · rename_i h'; rw [h'.1, h'.2]; exact htp
        · exact hc.wake_keys L c (alookup_ne_none_iff.1 hl)
      wake_unique := by
        intro L
        by_cases hL : L = ""
        · subst hL
          rw [SimSt.addMasterWake_master]
          simp only []
          rw [(hwk "").1]
          exact addWakeup_unique _ (hc.wake_unique "") _ _
        · rw [SimSt.addMasterWake_sched_ne _ _ _ hL, (hwk L).1]
          exact hc.wake_unique L
      flat_sched :=
        { started := fun s hs => by rw [S.flatten_isSys] at hs; cases hs
          wake_sys := fun s P hs _ => by rw [S.flatten_isSys] at hs; cases hs
          wake_keys := by
            intro L c hk'
            by_cases hL : L = ""
            · subst hL
              have hl := alookup_ne_none_iff.2 hk'
              rw [SimSt.addMasterWake_lookup] at hl
              split at hl
              · rename_i h'
                rw [h', S.flatten_parent, if_pos (Static.mem_devices_iff.2 hx)]
              · exact hc.flat_sched.wake_keys "" c (alookup_ne_none_iff.1 hl)
            · rw [SimSt.addMasterWake_sched_ne _ _ _ hL] at hk'
              exact hc.flat_sched.wake_keys L c hk'
          wake_unique := by
            intro L
            by_cases hL : L = ""
            · subst hL
              rw [SimSt.addMasterWake_master]
              exact addWakeup_unique _ (hc.flat_sched.wake_unique "") _ _
            · rw [SimSt.addMasterWake_sched_ne _ _ _ hL]
              exact hc.flat_sched.wake_unique L } }

end Tickit
