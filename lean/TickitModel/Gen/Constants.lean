-- GENERATED from /repo on every check run by harness/common.py:gen_constants — do not edit.
namespace Tickit.Gen
def topicPrefix : String := "tickit-"
def inSuffix : String := "-in"
def outSuffix : String := "-out"
def pseudoExternal : String := "external"
def pseudoExpose : String := "expose"
def unknownReply : String := "Request does not match any known command"
end Tickit.Gen
